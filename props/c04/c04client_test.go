package c04

// The kafka.Client half of property C04: the conversion layer between the
// high-level request/response structs of the ~40 exported Client methods and
// the protocol messages.
//
// Unit TestClientRequests.  One case = (Client method, advertised version v,
// generated high-level request, generated response body).  A scripted one-broker
// cluster on memnet answers ApiVersions (advertising exactly v..v for the target
// API), Metadata and FindCoordinator properly, captures the raw frame of the
// target request and answers it with the reference encoding of the generated body.
//
//   request half   the captured frame is decoded strictly by the reference codec
//                  (size prefix, header, every field, no trailing bytes); api key,
//                  version == v and client id are checked; the body is compared
//                  with the body a mapping written here from the field
//                  documentation of the high-level struct says it must be.
//   response half  the struct returned by the method must carry the values of
//                  the body the broker encoded.
//
// Deliberately NOT compared (no source in the high-level struct, or derived from
// the context / defaults / hard-coded by the library):
//   request:  TimeoutMs of CreateTopics/DeleteTopics/CreatePartitions, Produce.Timeout,
//             Fetch.MaxWaitTime/ReplicaID/SessionID/SessionEpoch/CurrentLeaderEpoch/LogStartOffset/
//             ForgottenTopics/RackID (PartitionMaxBytes only below v3), OffsetCommit.RetentionTimeMs/
//             CommitTimestamp/CommittedLeaderEpoch, TxnOffsetCommit.CommittedLeaderEpoch,
//             ListOffsets.ReplicaID/CurrentLeaderEpoch, ElectLeaders.ElectionType,
//             DescribeGroups.IncludeAuthorizedOperations, Metadata (served from the Transport's cache:
//             the request on the wire is the Transport's own, so there is no request half),
//             the version number inside consumer-protocol blobs (JoinGroup/SyncGroup).
//             null vs empty (strings, arrays, bytes) is compared leniently everywhere (label
//             req_null_vs_empty) except AlterPartitionReassignments.BrokerIDs == nil, which the
//             documentation defines as null on the wire.
//   response: fields the high-level response has no member for (ThrottleTimeMs of DescribeGroups,
//             ListGroups, IncrementalAlterConfigs, ElectLeaders, *PartitionReassignments, ApiVersions;
//             ProtocolType/ProtocolData/AuthorizedOperations of DescribeGroups; LeaderEpoch fields;
//             CreateTopics v5 topic details; error MESSAGES (only the numeric code is compared);
//             ApiVersions.ApiName (derived); Metadata.Throttle (the Transport zeroes it) and
//             Partition.Leader when the leader is not in the broker list; ListOffsets: only the error
//             code, the throttle and that the offset shows up in FirstOffset/LastOffset/Offsets;
//             LeaveGroup members when the response carries none (the library substitutes the request's).
//
// DescribeACLs v2/v3 requests hit known finding F8 (one byte too many): reported with the signature of
// that entry (req-decode/DescribeAcls/v2|v3); the field values are still compared.

import (
	"bytes"
	"context"
	"encoding/binary"
	"encoding/hex"
	"encoding/json"
	"errors"
	"fmt"
	"io"
	"math"
	"reflect"
	"sort"
	"sync"
	"testing"
	"time"

	kafka "github.com/segmentio/kafka-go"
	"pgregory.net/rapid"

	"verif/internal/ev"
	"verif/internal/libtypes"
	"verif/memnet"
	"verif/refcodec"
)

const (
	ccBrokerAddr = "b1.fake:9092"
	ccClientID   = "c04-client"
)

// ccCase is the replayable case: the generated values themselves.
type ccCase struct {
	API     string          `json:"api"`
	Version int16           `json:"version"`
	Req     json.RawMessage `json:"req"`      // JSON of the high-level request struct (Produce: the recipe ccProduce)
	RespHex string          `json:"resp_hex"` // the response frame the broker answers with (reference encoding of the generated body)
}

type ccM = map[string]any

// ccAPI describes one Client method.
type ccAPI struct {
	name   string
	key    int16
	noReq  bool // no request half (Metadata)
	newReq func() any
	gen    func(t *rapid.T, v int16) any
	fix    func(t *rapid.T, v int16, req any, body ccM)
	call   func(ctx context.Context, cl *kafka.Client, req any) (any, error)
	want   func(k *ccChk, v int16, req any, got ccM) ccM
	check  func(k *ccChk, v int16, req any, body ccM, resp any)
	topics func(body ccM) []string // topics the scripted metadata must list (CreateTopics)
}

var (
	ccAPIs   []*ccAPI
	ccByName = map[string]*ccAPI{}
)

func ccDef[Q, R any](name string, key int16,
	call func(*kafka.Client, context.Context, *Q) (*R, error),
	gen func(t *rapid.T, v int16) *Q,
	want func(k *ccChk, v int16, q *Q, got ccM) ccM,
	fix func(t *rapid.T, v int16, q *Q, body ccM),
	check func(k *ccChk, v int16, q *Q, body ccM, r *R)) *ccAPI {
	a := &ccAPI{name: name, key: key,
		newReq: func() any { return new(Q) },
		gen:    func(t *rapid.T, v int16) any { return gen(t, v) },
		call: func(ctx context.Context, cl *kafka.Client, req any) (any, error) {
			r, err := call(cl, ctx, req.(*Q))
			if r == nil {
				return nil, err
			}
			return r, err
		},
		check: func(k *ccChk, v int16, req any, body ccM, resp any) { check(k, v, req.(*Q), body, resp.(*R)) },
	}
	if want != nil {
		a.want = func(k *ccChk, v int16, req any, got ccM) ccM { return want(k, v, req.(*Q), got) }
	}
	if fix != nil {
		a.fix = func(t *rapid.T, v int16, req any, body ccM) { fix(t, v, req.(*Q), body) }
	}
	ccAPIs = append(ccAPIs, a)
	ccByName[name] = a
	return a
}

// ---------------------------------------------------------------------------
// comparison helpers

// ccChk keeps the first mismatch: what = the field class (no indices, used in
// the signature), msg = details.
type ccChk struct {
	fails  []ccMismatch // first mismatch of every field class
	labels []string
}

type ccMismatch struct{ what, msg string }

func (k *ccChk) failf(what, format string, args ...any) {
	for _, f := range k.fails {
		if f.what == what {
			return
		}
	}
	k.fails = append(k.fails, ccMismatch{what, fmt.Sprintf(format, args...)})
}
func (k *ccChk) label(l string) { k.labels = append(k.labels, l) }

func (k *ccChk) eq(what string, got, want any) {
	if !reflect.DeepEqual(got, want) {
		k.failf(what, "%s: the response struct has %#v, the broker encoded %#v", what, got, want)
	}
}
func (k *ccChk) num(what string, got, want int64) {
	if got != want {
		k.failf(what, "%s: the response struct has %d, the broker encoded %d", what, got, want)
	}
}
func (k *ccChk) str(what string, got, want string) {
	if got != want {
		k.failf(what, "%s: the response struct has %q, the broker encoded %q", what, got, want)
	}
}
func (k *ccChk) byt(what string, got, want []byte) {
	if !bytes.Equal(got, want) {
		k.failf(what, "%s: the response struct has %x, the broker encoded %x", what, got, want)
	}
}
func (k *ccChk) ints(what string, got []int, want []int64) {
	ok := len(got) == len(want)
	for i := 0; ok && i < len(got); i++ {
		ok = int64(got[i]) == want[i]
	}
	if !ok {
		k.failf(what, "%s: the response struct has %v, the broker encoded %v", what, got, want)
	}
}
func (k *ccChk) strs(what string, got []string, want []string) {
	ok := len(got) == len(want)
	for i := 0; ok && i < len(got); i++ {
		ok = got[i] == want[i]
	}
	if !ok {
		k.failf(what, "%s: the response struct has %q, the broker encoded %q", what, got, want)
	}
}

// code: a zero error code is a nil error, any other code an error carrying it.
func (k *ccChk) code(what string, err error, code int64) {
	if code == 0 {
		if err != nil {
			k.failf(what, "%s: error %v although the broker encoded error code 0", what, err)
		}
		return
	}
	var ke kafka.Error
	if !errors.As(err, &ke) {
		k.failf(what, "%s: error %v although the broker encoded error code %d", what, err, code)
	} else if int64(ke) != code {
		k.failf(what, "%s: error code %d although the broker encoded %d", what, int64(ke), code)
	}
}
func (k *ccChk) dur(what string, d time.Duration, ms int64) {
	if d != time.Duration(ms)*time.Millisecond {
		k.failf(what, "%s: %v although the broker encoded %d ms", what, d, ms)
	}
}

func ccS(m ccM, k string) string { s, _ := m[k].(string); return s }
func ccB(m ccM, k string) bool   { b, _ := m[k].(bool); return b }
func ccF(m ccM, k string) float64 {
	f, _ := m[k].(float64)
	return f
}
func ccBy(m ccM, k string) []byte { b, _ := m[k].([]byte); return b }
func ccI64s(m ccM, k string) []int64 {
	a, _ := m[k].([]any)
	out := make([]int64, 0, len(a))
	for _, e := range a {
		x, _ := e.(int64)
		out = append(out, x)
	}
	return out
}
func ccStrArr(ss []string) any {
	if ss == nil {
		return nil
	}
	out := make([]any, len(ss))
	for i, s := range ss {
		out[i] = s
	}
	return out
}
func ccIntArr[T ~int | ~int32 | ~int64](xs []T) any {
	if xs == nil {
		return nil
	}
	out := make([]any, len(xs))
	for i, x := range xs {
		out[i] = int64(x)
	}
	return out
}
func ccKeys[V any](m map[string]V) []string {
	ks := make([]string, 0, len(m))
	for k := range m {
		ks = append(ks, k)
	}
	sort.Strings(ks)
	return ks
}

// ccSortBy sorts the array m[arr] of structs by a string field (arrays the
// library builds by iterating over a map have no defined order).
func ccSortBy(m ccM, arr, field string) {
	a, _ := m[arr].([]any)
	sort.SliceStable(a, func(i, j int) bool {
		x, _ := a[i].(ccM)
		y, _ := a[j].(ccM)
		return ccS(x, field) < ccS(y, field)
	})
}

// ccUnique makes the string field distinct over the elements (response arrays
// that the library turns into a map keyed by that field: brokers answer with
// distinct names).
func ccUnique(arr []ccM, field string) {
	seen := map[string]bool{}
	for i, e := range arr {
		s := ccS(e, field)
		for seen[s] {
			s = fmt.Sprintf("%s~%d", s, i)
		}
		seen[s] = true
		e[field] = s
	}
}
func ccUniqueInt(arr []ccM, field string) {
	seen := map[int64]bool{}
	for _, e := range arr {
		x := bi(e, field)
		for seen[x] {
			x = (x + 1) & 0x3fffffff
		}
		seen[x] = true
		e[field] = x
	}
}

func ccToInt(v any) (int64, bool) {
	switch x := v.(type) {
	case int64:
		return x, true
	case int:
		return int64(x), true
	case int32:
		return int64(x), true
	case int16:
		return int64(x), true
	case int8:
		return int64(x), true
	}
	return 0, false
}

// ccDiff compares the expected body with the decoded one.  Fields absent from
// want are not compared; null and empty are the same.  It returns the field
// class (path without indices) and a description of the first difference.
func ccDiff(k *ccChk, path, ipath string, fs []refcodec.Field, ver int16, want, got ccM, strict *bool) {
	for i := range fs {
		f := &fs[i]
		if !f.In(ver) {
			continue
		}
		w, ok := want[f.N]
		if !ok {
			continue
		}
		p, ip := f.N, f.N
		if path != "" {
			p, ip = path+"."+f.N, ipath+"."+f.N
		}
		ccDiffValue(k, p, ip, f.T, ver, w, got[f.N], strict)
	}
}

func ccDiffValue(k *ccChk, p, ip string, t *refcodec.Type, ver int16, w, g any, strict *bool) {
	mis := func() {
		k.failf(p, "%s: the request struct says %s, the wire carries %s", ip, ccShow(w), ccShow(g))
	}
	if (w == nil) != (g == nil) {
		*strict = false
	}
	switch t.Kind {
	case refcodec.KBool:
		x, _ := w.(bool)
		y, _ := g.(bool)
		if x != y {
			mis()
		}
	case refcodec.KInt8, refcodec.KInt16, refcodec.KInt32, refcodec.KInt64:
		x, _ := ccToInt(w)
		y, _ := ccToInt(g)
		if x != y {
			mis()
		}
	case refcodec.KFloat64:
		x, _ := w.(float64)
		y, _ := g.(float64)
		if x != y && !(x != x && y != y) {
			mis()
		}
	case refcodec.KString:
		x, _ := w.(string)
		y, _ := g.(string)
		if x != y {
			mis()
		}
	case refcodec.KBytes:
		x, _ := w.([]byte)
		y, _ := g.([]byte)
		if !bytes.Equal(x, y) {
			mis()
		}
	case refcodec.KArray:
		x, _ := w.([]any)
		y, _ := g.([]any)
		if len(x) != len(y) {
			k.failf(p+"#", "%s: the request struct has %d elements, the wire carries %d", ip, len(x), len(y))
			return
		}
		for i := range x {
			ccDiffValue(k, p, fmt.Sprintf("%s[%d]", ip, i), t.Elem, ver, x[i], y[i], strict)
		}
	case refcodec.KStruct, refcodec.KInline:
		x, _ := w.(ccM)
		y, _ := g.(ccM)
		ccDiff(k, p, ip, t.Fields, ver, x, y, strict)
	}
}

func ccShow(v any) string {
	switch x := v.(type) {
	case nil:
		return "null"
	case []byte:
		if len(x) > 24 {
			return fmt.Sprintf("%x…(%d bytes)", x[:24], len(x))
		}
		return fmt.Sprintf("%x", x)
	case string:
		if len(x) > 40 {
			return fmt.Sprintf("%q…(%d)", x[:40], len(x))
		}
		return fmt.Sprintf("%q", x)
	}
	return fmt.Sprintf("%v", v)
}

// ---------------------------------------------------------------------------
// consumer-protocol blobs (JoinGroup / SyncGroup / DescribeGroups carry them as BYTES)

type ccTP struct {
	Topic string
	Parts []int64
}
type ccSub struct {
	Version  int16
	Topics   []string
	UserData []byte // nil = null
	Owned    []ccTP // version 1
}
type ccAsg struct {
	Version  int16
	Topics   []ccTP
	UserData []byte
}

func ccWriteTPs(w *refcodec.Writer, tps []ccTP) {
	w.Int32(int32(len(tps)))
	for _, tp := range tps {
		s := tp.Topic
		w.String(&s)
		w.Int32(int32(len(tp.Parts)))
		for _, p := range tp.Parts {
			w.Int32(int32(p))
		}
	}
}
func ccReadTPs(r *refcodec.Reader) []ccTP {
	n := r.Int32()
	var out []ccTP
	for i := int32(0); i < n && r.Err == nil; i++ {
		var tp ccTP
		if s := r.String(false); s != nil {
			tp.Topic = *s
		}
		m := r.Int32()
		for j := int32(0); j < m && r.Err == nil; j++ {
			tp.Parts = append(tp.Parts, int64(r.Int32()))
		}
		out = append(out, tp)
	}
	return out
}
func ccEncSub(s ccSub) []byte {
	w := &refcodec.Writer{}
	w.Int16(s.Version)
	w.Int32(int32(len(s.Topics)))
	for _, t := range s.Topics {
		t := t
		w.String(&t)
	}
	w.Bytes(s.UserData, s.UserData == nil)
	if s.Version >= 1 {
		ccWriteTPs(w, s.Owned)
	}
	return w.B
}
func ccDecSub(b []byte) (ccSub, error) {
	r := &refcodec.Reader{B: b}
	var s ccSub
	s.Version = r.Int16()
	n := r.Int32()
	for i := int32(0); i < n && r.Err == nil; i++ {
		if x := r.String(false); x != nil {
			s.Topics = append(s.Topics, *x)
		}
	}
	ud, null := r.Bytes(true)
	if !null {
		s.UserData = append([]byte{}, ud...)
	}
	if s.Version >= 1 && r.Err == nil && r.Remaining() > 0 {
		s.Owned = ccReadTPs(r)
	}
	if r.Err != nil {
		return s, r.Err
	}
	if r.Remaining() != 0 {
		return s, fmt.Errorf("%d trailing bytes", r.Remaining())
	}
	return s, nil
}
func ccEncAsg(a ccAsg) []byte {
	w := &refcodec.Writer{}
	w.Int16(a.Version)
	ccWriteTPs(w, a.Topics)
	w.Bytes(a.UserData, a.UserData == nil)
	return w.B
}
func ccDecAsg(b []byte) (ccAsg, error) {
	r := &refcodec.Reader{B: b}
	var a ccAsg
	a.Version = r.Int16()
	a.Topics = ccReadTPs(r)
	ud, null := r.Bytes(true)
	if !null {
		a.UserData = append([]byte{}, ud...)
	}
	if r.Err != nil {
		return a, r.Err
	}
	if r.Remaining() != 0 {
		return a, fmt.Errorf("%d trailing bytes", r.Remaining())
	}
	return a, nil
}

// ccTPsOfMap: a topic -> partitions map as a list sorted by topic.
func ccTPsOfMap(m map[string][]int) []ccTP {
	var out []ccTP
	for _, t := range ccKeys(m) {
		tp := ccTP{Topic: t}
		for _, p := range m[t] {
			tp.Parts = append(tp.Parts, int64(p))
		}
		out = append(out, tp)
	}
	return out
}
func ccSortTPs(tps []ccTP) []ccTP {
	out := append([]ccTP{}, tps...)
	sort.SliceStable(out, func(i, j int) bool { return out[i].Topic < out[j].Topic })
	return out
}
func ccSameTPs(a, b []ccTP) bool {
	if len(a) != len(b) {
		return false
	}
	for i := range a {
		if a[i].Topic != b[i].Topic || len(a[i].Parts) != len(b[i].Parts) {
			return false
		}
		for j := range a[i].Parts {
			if a[i].Parts[j] != b[i].Parts[j] {
				return false
			}
		}
	}
	return true
}
func ccSameStrs(a, b []string) bool {
	if len(a) != len(b) {
		return false
	}
	for i := range a {
		if a[i] != b[i] {
			return false
		}
	}
	return true
}

// ---------------------------------------------------------------------------
// generators of request values

var (
	ccGenName = rapid.StringMatching(`[a-z0-9._\-]{1,10}`)
	ccGenStr  = rapid.OneOf(ccGenName, ccGenName, ccGenName, ccGenName, rapid.Just(""),
		rapid.StringMatching(`[a-z]{126,132}`), rapid.StringMatching(`[a-zé☃]{1,5}`))
	ccGenLen = rapid.SampledFrom([]int{0, 1, 1, 1, 2, 2, 3})
)

func ccStr(t *rapid.T, l string) string  { return ccGenStr.Draw(t, l) }
func ccName(t *rapid.T, l string) string { return ccGenName.Draw(t, l) }
func ccLen(t *rapid.T, l string) int     { return ccGenLen.Draw(t, l) }
func ccLen1(t *rapid.T, l string) int    { return rapid.IntRange(1, 3).Draw(t, l) }
func ccBool(t *rapid.T, l string) bool   { return rapid.Bool().Draw(t, l) }

// ccInt: a value of the signed wire width, boundary-biased.
func ccInt(t *rapid.T, l string, bits uint) int {
	lo, hi := -(1 << (bits - 1)), 1<<(bits-1)-1
	return rapid.OneOf(rapid.SampledFrom([]int{0, 1, -1, lo, hi}), rapid.IntRange(lo, hi), rapid.IntRange(0, 1000)).Draw(t, l)
}
func ccI64(t *rapid.T, l string) int64 {
	return rapid.OneOf(rapid.SampledFrom([]int64{0, 1, -1, math.MinInt64, math.MaxInt64}), rapid.Int64(), rapid.Int64Range(0, 100000)).Draw(t, l)
}

// ccInts: nil, empty or 1-3 values.
func ccInts(t *rapid.T, l string) []int {
	n := rapid.SampledFrom([]int{-1, 0, 1, 2, 2, 3}).Draw(t, l+"#")
	if n < 0 {
		return nil
	}
	out := make([]int, n)
	for i := range out {
		out[i] = ccInt(t, l, 32)
	}
	return out
}
func ccInts32(t *rapid.T, l string) []int32 {
	xs := ccInts(t, l)
	if xs == nil {
		return nil
	}
	out := make([]int32, len(xs))
	for i, x := range xs {
		out[i] = int32(x)
	}
	return out
}
func ccStrs(t *rapid.T, l string) []string {
	n := rapid.SampledFrom([]int{-1, 0, 1, 2, 2, 3}).Draw(t, l+"#")
	if n < 0 {
		return nil
	}
	out := make([]string, n)
	for i := range out {
		out[i] = ccName(t, l)
	}
	return out
}
func ccBytes(t *rapid.T, l string) []byte {
	switch rapid.IntRange(0, 5).Draw(t, l+"?") {
	case 0:
		return nil
	case 1:
		return []byte{}
	case 2:
		return rapid.SliceOfN(rapid.Byte(), 120, 200).Draw(t, l)
	}
	return rapid.SliceOfN(rapid.Byte(), 1, 12).Draw(t, l)
}

// ccTopicMap: 0-3 distinct topic names.
func ccTopicNames(t *rapid.T, l string, min int) []string {
	n := ccLen(t, l+"#")
	if n < min {
		n = min
	}
	seen := map[string]bool{}
	var out []string
	for len(out) < n {
		s := ccName(t, l)
		if !seen[s] {
			seen[s] = true
			out = append(out, s)
		}
	}
	return out
}
func ccPartMap(t *rapid.T, l string) map[string][]int {
	if rapid.IntRange(0, 7).Draw(t, l+"?nil") == 0 {
		return nil
	}
	m := map[string][]int{}
	for _, name := range ccTopicNames(t, l, 0) {
		m[name] = ccInts(t, l+".partitions")
	}
	return m
}
func ccMs(t *rapid.T, l string) time.Duration {
	return time.Duration(rapid.OneOf(rapid.SampledFrom([]int{0, 1, math.MaxInt32}), rapid.IntRange(0, 600000)).Draw(t, l)) * time.Millisecond
}

var (
	ccResourceTypes = []kafka.ResourceType{kafka.ResourceTypeUnknown, kafka.ResourceTypeAny, kafka.ResourceTypeTopic, kafka.ResourceTypeGroup, kafka.ResourceTypeCluster, kafka.ResourceTypeTransactionalID, kafka.ResourceTypeDelegationToken}
	// without the broker/cluster type: such resources are routed by name to a broker id
	ccResourceTypesNoBroker = []kafka.ResourceType{kafka.ResourceTypeUnknown, kafka.ResourceTypeAny, kafka.ResourceTypeTopic, kafka.ResourceTypeGroup, kafka.ResourceTypeTransactionalID, kafka.ResourceTypeDelegationToken}
	ccPatternTypes          = []kafka.PatternType{kafka.PatternTypeUnknown, kafka.PatternTypeAny, kafka.PatternTypeMatch, kafka.PatternTypeLiteral, kafka.PatternTypePrefixed}
	ccOperations            = []kafka.ACLOperationType{kafka.ACLOperationTypeUnknown, kafka.ACLOperationTypeAny, kafka.ACLOperationTypeAll, kafka.ACLOperationTypeRead, kafka.ACLOperationTypeWrite, kafka.ACLOperationTypeCreate, kafka.ACLOperationTypeDelete, kafka.ACLOperationTypeAlter, kafka.ACLOperationTypeDescribe, kafka.ACLOperationTypeClusterAction, kafka.ACLOperationTypeDescribeConfigs, kafka.ACLOperationTypeAlterConfigs, kafka.ACLOperationTypeIdempotentWrite}
	ccPermissions           = []kafka.ACLPermissionType{kafka.ACLPermissionTypeUnknown, kafka.ACLPermissionTypeAny, kafka.ACLPermissionTypeDeny, kafka.ACLPermissionTypeAllow}
)

// ---------------------------------------------------------------------------
// the scripted broker

type ccBroker struct {
	a      *refcodec.API
	v      int16
	resp   []byte
	topics []string
	mu     sync.Mutex
	frames [][]byte
	odd    []string
}

func ccMustEncode(key, ver int16, body ccM) []byte {
	fr, _, err := refcodec.EncodeResponse(refcodec.MustLookup(key), ver, 0, body, nil)
	if err != nil {
		panic(err)
	}
	return fr
}

func (b *ccBroker) apiVersions(ver int16) []byte {
	var keys []any
	for i := range refcodec.APIs {
		a := &refcodec.APIs[i]
		lo, hi := a.Min, a.Max
		if a.Key == b.a.Key {
			lo, hi = b.v, b.v
		}
		keys = append(keys, ccM{"ApiKey": int64(a.Key), "MinVersion": int64(lo), "MaxVersion": int64(hi)})
	}
	return ccMustEncode(18, ver, ccM{"ErrorCode": int64(0), "ApiKeys": keys, "ThrottleTimeMs": int64(0)})
}

func (b *ccBroker) metadata(ver int16) []byte {
	part := func(i int) ccM {
		return ccM{"ErrorCode": int64(0), "PartitionIndex": int64(i), "LeaderID": int64(1), "LeaderEpoch": int64(0),
			"ReplicaNodes": []any{int64(1)}, "IsrNodes": []any{int64(1)}, "OfflineReplicas": []any{}}
	}
	var topics []any
	for _, name := range []string{"t0", "t1", "t2"} {
		topics = append(topics, ccM{"ErrorCode": int64(0), "Name": name, "IsInternal": false, "Partitions": []any{part(0), part(1), part(2)}, "TopicAuthorizedOperations": int64(0)})
	}
	for _, name := range b.topics {
		if name == "t0" || name == "t1" || name == "t2" {
			continue
		}
		topics = append(topics, ccM{"ErrorCode": int64(0), "Name": name, "IsInternal": false, "Partitions": []any{part(0)}, "TopicAuthorizedOperations": int64(0)})
	}
	return ccMustEncode(3, ver, ccM{
		"ThrottleTimeMs": int64(0),
		"Brokers":        []any{ccM{"NodeID": int64(1), "Host": "b1.fake", "Port": int64(9092), "Rack": nil}},
		"ClusterID":      "c04", "ControllerID": int64(1), "Topics": topics, "ClusterAuthorizedOperations": int64(0)})
}

func (b *ccBroker) note(format string, args ...any) {
	b.mu.Lock()
	b.odd = append(b.odd, fmt.Sprintf(format, args...))
	b.mu.Unlock()
}

func (b *ccBroker) handle(sc *memnet.ServerConn) {
	defer sc.Close()
	first := true
	for {
		var szb [4]byte
		if _, err := io.ReadFull(sc, szb[:]); err != nil {
			return
		}
		size := int32(binary.BigEndian.Uint32(szb[:]))
		if size < 8 || size > 64<<20 {
			b.note("frame size %d", size)
			return
		}
		frame := make([]byte, 4+size)
		copy(frame, szb[:])
		if _, err := io.ReadFull(sc, frame[4:]); err != nil {
			return
		}
		key := int16(binary.BigEndian.Uint16(frame[4:]))
		ver := int16(binary.BigEndian.Uint16(frame[6:]))
		corr := frame[8:12]
		handshake := first && key == 18
		first = false
		var out []byte
		switch {
		case key == b.a.Key && !handshake:
			b.mu.Lock()
			b.frames = append(b.frames, frame)
			b.mu.Unlock()
			out = append([]byte{}, b.resp...)
		case key == 18 && ver >= 0 && ver <= 2:
			out = b.apiVersions(ver)
		case key == 3 && ver >= 0 && ver <= 8:
			out = b.metadata(ver)
		case key == 10 && ver >= 0 && ver <= 2:
			out = ccMustEncode(10, ver, ccM{"ThrottleTimeMs": int64(0), "ErrorCode": int64(0), "ErrorMessage": nil, "NodeID": int64(1), "Host": "b1.fake", "Port": int64(9092)})
		default:
			b.note("unexpected request key=%d version=%d", key, ver)
			return
		}
		copy(out[4:8], corr)
		if _, err := sc.Write(out); err != nil {
			return
		}
	}
}

// ---------------------------------------------------------------------------
// the property

func ccFlat(s string) string {
	out := []byte(s)
	for i, c := range out {
		if c == '.' {
			out[i] = '-'
		}
	}
	return string(out)
}

func ccVerClass(a *refcodec.API, v int16) string {
	switch {
	case v == a.Max && v == a.Min:
		return "ver:only"
	case v == a.Min:
		return "ver:min"
	case v == a.Max:
		return "ver:max"
	}
	return "ver:mid"
}

func ccRun(tb ev.TB, c ccCase) {
	api := ccByName[c.API]
	if api == nil {
		tb.Fatalf("harness: unknown api %q", c.API)
	}
	a := refcodec.MustLookup(api.key)
	v := c.Version
	req := api.newReq()
	if err := json.Unmarshal(c.Req, req); err != nil {
		tb.Fatalf("harness: decoding the request of the case: %v", err)
	}
	frame, err := hex.DecodeString(c.RespHex)
	if err != nil {
		tb.Fatalf("harness: %v", err)
	}
	_, body, err := refcodec.DecodeResponse(a, v, frame)
	if err != nil {
		tb.Fatalf("harness: the reference cannot decode the response frame of the case: %v", err)
	}
	ev.InFlight("client-requests", c)

	br := &ccBroker{a: a, v: v, resp: frame}
	if api.topics != nil {
		br.topics = api.topics(body)
	}
	nw := memnet.New()
	nw.Listen(ccBrokerAddr, br.handle)
	tr := &kafka.Transport{Dial: nw.Dial, DialTimeout: 20 * time.Second, ClientID: ccClientID}
	cl := &kafka.Client{Addr: kafka.TCP(ccBrokerAddr), Transport: tr}
	ctx, cancel := context.WithTimeout(context.Background(), 40*time.Second)
	var resp any
	var callErr error
	var panicked any
	func() {
		defer func() { panicked = recover() }()
		resp, callErr = api.call(ctx, cl, req)
	}()
	cancel()
	tr.CloseIdleConnections()
	nw.Shutdown()
	br.mu.Lock()
	frames, odd := br.frames, br.odd
	br.mu.Unlock()

	fail := func(half, what, format string, args ...any) bool {
		return ev.Fail(tb, "client-requests", fmt.Sprintf("c04/client-%s/%s/%s", half, api.name, ccFlat(what)), c, "%s v%d: %s", api.name, v, fmt.Sprintf(format, args...))
	}
	if panicked != nil {
		fail("resp", "panic", "Client.%s panicked: %v", api.name, panicked)
		return
	}
	if len(odd) != 0 {
		tb.Fatalf("harness: the scripted broker saw %v (Client.%s v%d, err=%v)", odd, api.name, v, callErr)
	}
	if callErr != nil && (errors.Is(callErr, context.DeadlineExceeded) || errors.Is(callErr, context.Canceled)) {
		ev.Inconclusive("client-call-timeout")
		return
	}
	labels := []string{"api:" + api.name, ccVerClass(a, v)}
	if a.ReqFlexible(v) {
		labels = append(labels, "flexible")
	} else {
		labels = append(labels, "nonflex")
	}

	// ---- request half
	var wantBody ccM
	if !api.noReq {
		if len(frames) != 1 {
			if len(frames) == 0 && callErr != nil {
				fail("req", "not-sent", "the request never reached the broker: %v", callErr)
				return
			}
			tb.Fatalf("harness: %d %s frames captured for one call (err=%v)", len(frames), api.name, callErr)
		}
		fr := frames[0]
		h, _, got, derr := refcodec.DecodeRequest(fr)
		if derr != nil {
			sig := fmt.Sprintf("c04/client-req/%s/decode", api.name)
			if a.Key == 29 && v >= 2 {
				sig = fmt.Sprintf("req-decode/%s/v%d", a.Name, v) // known finding F8
			}
			if ev.Fail(tb, "client-requests", sig, c, "%s v%d: the reference decoder rejects the emitted request: %v\nframe=%x", api.name, v, derr, fr) {
				return
			}
			labels = append(labels, "known_decode_error")
		}
		if h.ApiKey != a.Key || h.ApiVersion != v || h.ClientID == nil || *h.ClientID != ccClientID {
			if fail("req", "header", "header %+v (client id %v), want key=%d version=%d (the only one advertised) client=%q\nframe=%x", h, h.ClientID, a.Key, v, ccClientID, fr) {
				return
			}
		}
		if got != nil {
			k := &ccChk{}
			wantBody = api.want(k, v, req, got)
			strict := true
			ccDiff(k, "", "", a.Req, v, wantBody, got, &strict)
			for _, f := range k.fails {
				if fail("req", f.what, "%s\nrequest=%s\nframe=%x", f.msg, c.Req, fr) {
					return
				}
				labels = append(labels, "known_req_mismatch")
			}
			if len(k.fails) == 0 && !strict {
				labels = append(labels, "req_null_vs_empty")
			}
			labels = append(labels, k.labels...)
			labels = append(labels, "req_checked")
			ev.Count("req_checked", 1)
		}
	}

	// ---- response half
	if resp == nil {
		if callErr == nil {
			fail("resp", "nil", "Client.%s returned neither a response nor an error", api.name)
			return
		}
		if fail("resp", "error", "Client.%s failed on a well-formed response: %v\nresponse frame=%x", api.name, callErr, frame) {
			return
		}
		labels = append(labels, "known_resp_error")
	} else {
		k := &ccChk{}
		api.check(k, v, req, body, resp)
		for _, f := range k.fails {
			if fail("resp", f.what, "%s\nresponse frame=%x", f.msg, frame) {
				return
			}
			labels = append(labels, "known_resp_mismatch")
		}
		labels = append(labels, k.labels...)
		labels = append(labels, "resp_checked")
		ev.Count("resp_checked", 1)
	}
	nontrivial := api.noReq || nonDefault(wantBody)
	ev.Case(fmt.Sprintf("%s/%d/%s/%s", api.name, v, shapeOf(wantBody), shapeOf(body)), nontrivial, labels...)
	ev.Count("client_api_"+api.name, 1)
	ev.Sample(map[string]any{"api": api.name, "version": v, "request": json.RawMessage(c.Req), "response_shape": shapeOf(body)})
}

func init() { ev.Register("client-requests", ccRun) }

func TestClientRequests(t *testing.T) {
	rapid.Check(t, func(t *rapid.T) {
		// api uniformly, the version drawn over the whole supported range
		// (rapid's integer generators favour small values: the draw is mixed to spread the cases evenly over the methods)
		api := ccAPIs[int((rapid.Uint64().Draw(t, "api")*0x9E3779B97F4A7C15)>>33)%len(ccAPIs)]
		a := refcodec.MustLookup(api.key)
		v := int16(rapid.IntRange(int(a.Min), int(a.Max)).Draw(t, "version"))
		req := api.gen(t, v)
		reqJSON, err := json.Marshal(req)
		if err != nil {
			t.Fatalf("harness: %v", err)
		}
		body := refcodec.GenBody(t, a.Resp, v, refcodec.ForLibDecode, 0, recsFor(a, v, false))
		ccRealisticThrottle(body)
		if api.fix != nil {
			api.fix(t, v, req, body)
		}
		opt := &refcodec.EncOpts{OmitDefaultTagged: rapid.Bool().Draw(t, "omitDefaultTagged")}
		if a.RespFlexible(v) {
			opt.UnknownTags = refcodec.GenUnknownTags(t)
		}
		frame, _, err := refcodec.EncodeResponse(a, v, 0, body, opt)
		if err != nil {
			t.Fatalf("harness: %v", err)
		}
		ccRun(t, ccCase{API: api.name, Version: v, Req: reqJSON, RespHex: hex.EncodeToString(frame)})
	})
}

// ccRealisticThrottle: brokers report how long a request was throttled, a duration that is never negative (mergers of
// split requests keep the largest value, starting from zero).
func ccRealisticThrottle(v any) {
	switch x := v.(type) {
	case ccM:
		for k, e := range x {
			if n, ok := e.(int64); ok && (k == "ThrottleTimeMs" || k == "ThrottleTimeMS") && n < 0 {
				x[k] = -(n + 1)
			} else {
				ccRealisticThrottle(e)
			}
		}
	case []any:
		for _, e := range x {
			ccRealisticThrottle(e)
		}
	}
}

// ---------------------------------------------------------------------------
// the Client methods: generator, expected request body, response comparison

// ccErrMap compares a name -> error map with the (name, ErrorCode) list the broker encoded.
func ccErrMap(k *ccChk, what string, got map[string]error, arr []ccM, nameField string) {
	k.num(what+"#", int64(len(got)), int64(len(arr)))
	for _, e := range arr {
		err, ok := got[ccS(e, nameField)]
		if !ok {
			k.failf(what, "%s: no entry for %q, which the broker encoded", what, ccS(e, nameField))
			continue
		}
		k.code(what, err, bi(e, "ErrorCode"))
	}
}

func ccTimeoutPositive(k *ccChk, got ccM, field string) {
	if bi(got, field) > 0 {
		k.label("timeout_positive")
	} else {
		k.label("timeout_not_positive")
	}
}

func init() {
	// ---- CreateTopics
	ct := ccDef("CreateTopics", 19, (*kafka.Client).CreateTopics,
		func(t *rapid.T, v int16) *kafka.CreateTopicsRequest {
			q := &kafka.CreateTopicsRequest{ValidateOnly: ccBool(t, "validateOnly")}
			for i, n := 0, ccLen(t, "topics"); i < n; i++ {
				tc := kafka.TopicConfig{Topic: ccStr(t, "topic"), NumPartitions: ccInt(t, "numPartitions", 32), ReplicationFactor: ccInt(t, "replicationFactor", 16)}
				for j, m := 0, ccLen(t, "assignments"); j < m; j++ {
					tc.ReplicaAssignments = append(tc.ReplicaAssignments, kafka.ReplicaAssignment{Partition: ccInt(t, "partition", 32), Replicas: ccInts(t, "replicas")})
				}
				for j, m := 0, ccLen(t, "configs"); j < m; j++ {
					tc.ConfigEntries = append(tc.ConfigEntries, kafka.ConfigEntry{ConfigName: ccStr(t, "configName"), ConfigValue: ccStr(t, "configValue")})
				}
				q.Topics = append(q.Topics, tc)
			}
			return q
		},
		func(k *ccChk, v int16, q *kafka.CreateTopicsRequest, got ccM) ccM {
			topics := []any{}
			for _, tc := range q.Topics {
				as, cs := []any{}, []any{}
				for _, ra := range tc.ReplicaAssignments {
					as = append(as, ccM{"PartitionIndex": int64(ra.Partition), "BrokerIDs": ccIntArr(ra.Replicas)})
				}
				for _, ce := range tc.ConfigEntries {
					cs = append(cs, ccM{"Name": ce.ConfigName, "Value": ce.ConfigValue})
				}
				topics = append(topics, ccM{"Name": tc.Topic, "NumPartitions": int64(tc.NumPartitions), "ReplicationFactor": int64(tc.ReplicationFactor), "Assignments": as, "Configs": cs})
			}
			ccTimeoutPositive(k, got, "TimeoutMs")
			return ccM{"Topics": topics, "ValidateOnly": q.ValidateOnly}
		},
		func(t *rapid.T, v int16, q *kafka.CreateTopicsRequest, body ccM) {
			ccUnique(ba(body, "Topics"), "Name")
		},
		func(k *ccChk, v int16, q *kafka.CreateTopicsRequest, body ccM, r *kafka.CreateTopicsResponse) {
			k.dur("Throttle", r.Throttle, bi(body, "ThrottleTimeMs"))
			ccErrMap(k, "Errors", r.Errors, ba(body, "Topics"), "Name")
		})
	// after a successful CreateTopics the Transport waits until the topics show up in its metadata
	ct.topics = func(body ccM) []string {
		var out []string
		for _, t := range ba(body, "Topics") {
			out = append(out, ccS(t, "Name"))
		}
		return out
	}

	// ---- DeleteTopics
	ccDef("DeleteTopics", 20, (*kafka.Client).DeleteTopics,
		func(t *rapid.T, v int16) *kafka.DeleteTopicsRequest {
			return &kafka.DeleteTopicsRequest{Topics: ccStrs(t, "topics")}
		},
		func(k *ccChk, v int16, q *kafka.DeleteTopicsRequest, got ccM) ccM {
			ccTimeoutPositive(k, got, "TimeoutMs")
			return ccM{"TopicNames": ccStrArr(q.Topics)}
		},
		func(t *rapid.T, v int16, q *kafka.DeleteTopicsRequest, body ccM) {
			ccUnique(ba(body, "Responses"), "Name")
		},
		func(k *ccChk, v int16, q *kafka.DeleteTopicsRequest, body ccM, r *kafka.DeleteTopicsResponse) {
			k.dur("Throttle", r.Throttle, bi(body, "ThrottleTimeMs"))
			ccErrMap(k, "Errors", r.Errors, ba(body, "Responses"), "Name")
		})

	// ---- CreatePartitions
	ccDef("CreatePartitions", 37, (*kafka.Client).CreatePartitions,
		func(t *rapid.T, v int16) *kafka.CreatePartitionsRequest {
			q := &kafka.CreatePartitionsRequest{ValidateOnly: ccBool(t, "validateOnly")}
			for i, n := 0, ccLen(t, "topics"); i < n; i++ {
				tc := kafka.TopicPartitionsConfig{Name: ccStr(t, "name"), Count: int32(ccInt(t, "count", 32))}
				for j, m := 0, ccLen(t, "assignments"); j < m; j++ {
					tc.TopicPartitionAssignments = append(tc.TopicPartitionAssignments, kafka.TopicPartitionAssignment{BrokerIDs: ccInts32(t, "brokerIDs")})
				}
				q.Topics = append(q.Topics, tc)
			}
			return q
		},
		func(k *ccChk, v int16, q *kafka.CreatePartitionsRequest, got ccM) ccM {
			topics := []any{}
			for _, tc := range q.Topics {
				as := []any{}
				for _, a := range tc.TopicPartitionAssignments {
					as = append(as, ccM{"BrokerIDs": ccIntArr(a.BrokerIDs)})
				}
				topics = append(topics, ccM{"Name": tc.Name, "Count": int64(tc.Count), "Assignments": as})
			}
			ccTimeoutPositive(k, got, "TimeoutMs")
			return ccM{"Topics": topics, "ValidateOnly": q.ValidateOnly}
		},
		func(t *rapid.T, v int16, q *kafka.CreatePartitionsRequest, body ccM) {
			ccUnique(ba(body, "Results"), "Name")
		},
		func(k *ccChk, v int16, q *kafka.CreatePartitionsRequest, body ccM, r *kafka.CreatePartitionsResponse) {
			k.dur("Throttle", r.Throttle, bi(body, "ThrottleTimeMs"))
			ccErrMap(k, "Errors", r.Errors, ba(body, "Results"), "Name")
		})

	// ---- OffsetCommit
	ccDef("OffsetCommit", 8, (*kafka.Client).OffsetCommit,
		func(t *rapid.T, v int16) *kafka.OffsetCommitRequest {
			q := &kafka.OffsetCommitRequest{GroupID: ccStr(t, "groupID"), GenerationID: ccInt(t, "generationID", 32), MemberID: ccStr(t, "memberID"), InstanceID: ccStr(t, "instanceID")}
			if rapid.IntRange(0, 7).Draw(t, "nilTopics") != 0 {
				q.Topics = map[string][]kafka.OffsetCommit{}
				for _, name := range ccTopicNames(t, "topic", 0) {
					cs := []kafka.OffsetCommit{}
					for j, m := 0, ccLen(t, "commits"); j < m; j++ {
						cs = append(cs, kafka.OffsetCommit{Partition: ccInt(t, "partition", 32), Offset: ccI64(t, "offset"), Metadata: ccStr(t, "metadata")})
					}
					q.Topics[name] = cs
				}
			}
			return q
		},
		func(k *ccChk, v int16, q *kafka.OffsetCommitRequest, got ccM) ccM {
			ccSortBy(got, "Topics", "Name")
			topics := []any{}
			for _, name := range ccKeys(q.Topics) {
				ps := []any{}
				for _, c := range q.Topics[name] {
					ps = append(ps, ccM{"PartitionIndex": int64(c.Partition), "CommittedOffset": c.Offset, "CommittedMetadata": c.Metadata})
				}
				topics = append(topics, ccM{"Name": name, "Partitions": ps})
			}
			return ccM{"GroupID": q.GroupID, "GenerationID": int64(q.GenerationID), "MemberID": q.MemberID, "GroupInstanceID": q.InstanceID, "Topics": topics}
		},
		func(t *rapid.T, v int16, q *kafka.OffsetCommitRequest, body ccM) {
			ccUnique(ba(body, "Topics"), "Name")
		},
		func(k *ccChk, v int16, q *kafka.OffsetCommitRequest, body ccM, r *kafka.OffsetCommitResponse) {
			k.dur("Throttle", r.Throttle, bi(body, "ThrottleTimeMs"))
			ts := ba(body, "Topics")
			k.num("Topics#", int64(len(r.Topics)), int64(len(ts)))
			for _, t := range ts {
				got, ps := r.Topics[ccS(t, "Name")], ba(t, "Partitions")
				k.num("Topics.Partitions#", int64(len(got)), int64(len(ps)))
				for i := 0; i < len(ps) && i < len(got); i++ {
					k.num("Topics.Partition", int64(got[i].Partition), bi(ps[i], "PartitionIndex"))
					k.code("Topics.Error", got[i].Error, bi(ps[i], "ErrorCode"))
				}
			}
		})

	// ---- OffsetFetch
	ccDef("OffsetFetch", 9, (*kafka.Client).OffsetFetch,
		func(t *rapid.T, v int16) *kafka.OffsetFetchRequest {
			q := &kafka.OffsetFetchRequest{GroupID: ccStr(t, "groupID")}
			if v >= 2 {
				q.Topics = ccPartMap(t, "topics") // null (= all topics) exists from v2 on
			} else {
				q.Topics = map[string][]int{}
				for _, name := range ccTopicNames(t, "topics", 1) {
					q.Topics[name] = ccInts(t, "partitions")
				}
			}
			return q
		},
		func(k *ccChk, v int16, q *kafka.OffsetFetchRequest, got ccM) ccM {
			ccSortBy(got, "Topics", "Name")
			topics := []any{}
			for _, name := range ccKeys(q.Topics) {
				topics = append(topics, ccM{"Name": name, "PartitionIndexes": ccIntArr(q.Topics[name])})
			}
			return ccM{"GroupID": q.GroupID, "Topics": topics}
		},
		func(t *rapid.T, v int16, q *kafka.OffsetFetchRequest, body ccM) { ccUnique(ba(body, "Topics"), "Name") },
		func(k *ccChk, v int16, q *kafka.OffsetFetchRequest, body ccM, r *kafka.OffsetFetchResponse) {
			k.dur("Throttle", r.Throttle, bi(body, "ThrottleTimeMs"))
			k.code("Error", r.Error, bi(body, "ErrorCode"))
			ts := ba(body, "Topics")
			k.num("Topics#", int64(len(r.Topics)), int64(len(ts)))
			for _, t := range ts {
				got, ps := r.Topics[ccS(t, "Name")], ba(t, "Partitions")
				k.num("Topics.Partitions#", int64(len(got)), int64(len(ps)))
				for i := 0; i < len(ps) && i < len(got); i++ {
					k.num("Topics.Partition", int64(got[i].Partition), bi(ps[i], "PartitionIndex"))
					k.num("Topics.CommittedOffset", got[i].CommittedOffset, bi(ps[i], "CommittedOffset"))
					k.str("Topics.Metadata", got[i].Metadata, ccS(ps[i], "Metadata"))
					k.code("Topics.Error", got[i].Error, bi(ps[i], "ErrorCode"))
				}
			}
		})

	// ---- OffsetDelete
	ccDef("OffsetDelete", 47, (*kafka.Client).OffsetDelete,
		func(t *rapid.T, v int16) *kafka.OffsetDeleteRequest {
			return &kafka.OffsetDeleteRequest{GroupID: ccStr(t, "groupID"), Topics: ccPartMap(t, "topics")}
		},
		func(k *ccChk, v int16, q *kafka.OffsetDeleteRequest, got ccM) ccM {
			ccSortBy(got, "Topics", "Name")
			topics := []any{}
			for _, name := range ccKeys(q.Topics) {
				ps := []any{}
				for _, p := range q.Topics[name] {
					ps = append(ps, ccM{"PartitionIndex": int64(p)})
				}
				topics = append(topics, ccM{"Name": name, "Partitions": ps})
			}
			return ccM{"GroupID": q.GroupID, "Topics": topics}
		},
		func(t *rapid.T, v int16, q *kafka.OffsetDeleteRequest, body ccM) {
			ccUnique(ba(body, "Topics"), "Name")
		},
		func(k *ccChk, v int16, q *kafka.OffsetDeleteRequest, body ccM, r *kafka.OffsetDeleteResponse) {
			k.dur("Throttle", r.Throttle, bi(body, "ThrottleTimeMs"))
			k.code("Error", r.Error, bi(body, "ErrorCode"))
			ts := ba(body, "Topics")
			k.num("Topics#", int64(len(r.Topics)), int64(len(ts)))
			for _, t := range ts {
				got, ps := r.Topics[ccS(t, "Name")], ba(t, "Partitions")
				k.num("Topics.Partitions#", int64(len(got)), int64(len(ps)))
				for i := 0; i < len(ps) && i < len(got); i++ {
					k.num("Topics.Partition", int64(got[i].Partition), bi(ps[i], "PartitionIndex"))
					k.code("Topics.Error", got[i].Error, bi(ps[i], "ErrorCode"))
				}
			}
		})

	// ---- TxnOffsetCommit
	ccDef("TxnOffsetCommit", 28, (*kafka.Client).TxnOffsetCommit,
		func(t *rapid.T, v int16) *kafka.TxnOffsetCommitRequest {
			q := &kafka.TxnOffsetCommitRequest{TransactionalID: ccStr(t, "transactionalID"), GroupID: ccStr(t, "groupID"), ProducerID: int(ccI64(t, "producerID")), ProducerEpoch: ccInt(t, "producerEpoch", 16),
				GenerationID: ccInt(t, "generationID", 32), MemberID: ccStr(t, "memberID"), GroupInstanceID: ccStr(t, "groupInstanceID")}
			if rapid.IntRange(0, 7).Draw(t, "nilTopics") != 0 {
				q.Topics = map[string][]kafka.TxnOffsetCommit{}
				for _, name := range ccTopicNames(t, "topic", 0) {
					cs := []kafka.TxnOffsetCommit{}
					for j, m := 0, ccLen(t, "commits"); j < m; j++ {
						cs = append(cs, kafka.TxnOffsetCommit{Partition: ccInt(t, "partition", 32), Offset: ccI64(t, "offset"), Metadata: ccStr(t, "metadata")})
					}
					q.Topics[name] = cs
				}
			}
			return q
		},
		func(k *ccChk, v int16, q *kafka.TxnOffsetCommitRequest, got ccM) ccM {
			ccSortBy(got, "Topics", "Name")
			topics := []any{}
			for _, name := range ccKeys(q.Topics) {
				ps := []any{}
				for _, c := range q.Topics[name] {
					ps = append(ps, ccM{"Partition": int64(c.Partition), "CommittedOffset": c.Offset, "CommittedMetadata": c.Metadata})
				}
				topics = append(topics, ccM{"Name": name, "Partitions": ps})
			}
			return ccM{"TransactionalID": q.TransactionalID, "GroupID": q.GroupID, "ProducerID": int64(q.ProducerID), "ProducerEpoch": int64(q.ProducerEpoch),
				"GenerationID": int64(q.GenerationID), "MemberID": q.MemberID, "GroupInstanceID": q.GroupInstanceID, "Topics": topics}
		},
		func(t *rapid.T, v int16, q *kafka.TxnOffsetCommitRequest, body ccM) {
			ccUnique(ba(body, "Topics"), "Name")
		},
		func(k *ccChk, v int16, q *kafka.TxnOffsetCommitRequest, body ccM, r *kafka.TxnOffsetCommitResponse) {
			k.dur("Throttle", r.Throttle, bi(body, "ThrottleTimeMs"))
			ts := ba(body, "Topics")
			k.num("Topics#", int64(len(r.Topics)), int64(len(ts)))
			for _, t := range ts {
				got, ps := r.Topics[ccS(t, "Name")], ba(t, "Partitions")
				k.num("Topics.Partitions#", int64(len(got)), int64(len(ps)))
				for i := 0; i < len(ps) && i < len(got); i++ {
					k.num("Topics.Partition", int64(got[i].Partition), bi(ps[i], "Partition"))
					k.code("Topics.Error", got[i].Error, bi(ps[i], "ErrorCode"))
				}
			}
		})

	// ---- AddPartitionsToTxn
	ccDef("AddPartitionsToTxn", 24, (*kafka.Client).AddPartitionsToTxn,
		func(t *rapid.T, v int16) *kafka.AddPartitionsToTxnRequest {
			q := &kafka.AddPartitionsToTxnRequest{TransactionalID: ccStr(t, "transactionalID"), ProducerID: int(ccI64(t, "producerID")), ProducerEpoch: ccInt(t, "producerEpoch", 16)}
			if rapid.IntRange(0, 7).Draw(t, "nilTopics") != 0 {
				q.Topics = map[string][]kafka.AddPartitionToTxn{}
				for _, name := range ccTopicNames(t, "topic", 0) {
					ps := []kafka.AddPartitionToTxn{}
					for _, p := range ccInts(t, "partitions") {
						ps = append(ps, kafka.AddPartitionToTxn{Partition: p})
					}
					q.Topics[name] = ps
				}
			}
			return q
		},
		func(k *ccChk, v int16, q *kafka.AddPartitionsToTxnRequest, got ccM) ccM {
			ccSortBy(got, "Topics", "Name")
			topics := []any{}
			for _, name := range ccKeys(q.Topics) {
				ps := []any{}
				for _, p := range q.Topics[name] {
					ps = append(ps, int64(p.Partition))
				}
				topics = append(topics, ccM{"Name": name, "Partitions": ps})
			}
			return ccM{"TransactionalID": q.TransactionalID, "ProducerID": int64(q.ProducerID), "ProducerEpoch": int64(q.ProducerEpoch), "Topics": topics}
		},
		func(t *rapid.T, v int16, q *kafka.AddPartitionsToTxnRequest, body ccM) {
			ccUnique(ba(body, "Results"), "Name")
		},
		func(k *ccChk, v int16, q *kafka.AddPartitionsToTxnRequest, body ccM, r *kafka.AddPartitionsToTxnResponse) {
			k.dur("Throttle", r.Throttle, bi(body, "ThrottleTimeMs"))
			ts := ba(body, "Results")
			k.num("Topics#", int64(len(r.Topics)), int64(len(ts)))
			for _, t := range ts {
				got, ps := r.Topics[ccS(t, "Name")], ba(t, "Results")
				k.num("Topics.Partitions#", int64(len(got)), int64(len(ps)))
				for i := 0; i < len(ps) && i < len(got); i++ {
					k.num("Topics.Partition", int64(got[i].Partition), bi(ps[i], "PartitionIndex"))
					k.code("Topics.Error", got[i].Error, bi(ps[i], "ErrorCode"))
				}
			}
		})

	// ---- AddOffsetsToTxn
	ccDef("AddOffsetsToTxn", 25, (*kafka.Client).AddOffsetsToTxn,
		func(t *rapid.T, v int16) *kafka.AddOffsetsToTxnRequest {
			return &kafka.AddOffsetsToTxnRequest{TransactionalID: ccStr(t, "transactionalID"), ProducerID: int(ccI64(t, "producerID")), ProducerEpoch: ccInt(t, "producerEpoch", 16), GroupID: ccStr(t, "groupID")}
		},
		func(k *ccChk, v int16, q *kafka.AddOffsetsToTxnRequest, got ccM) ccM {
			return ccM{"TransactionalID": q.TransactionalID, "ProducerID": int64(q.ProducerID), "ProducerEpoch": int64(q.ProducerEpoch), "GroupID": q.GroupID}
		}, nil,
		func(k *ccChk, v int16, q *kafka.AddOffsetsToTxnRequest, body ccM, r *kafka.AddOffsetsToTxnResponse) {
			k.dur("Throttle", r.Throttle, bi(body, "ThrottleTimeMs"))
			k.code("Error", r.Error, bi(body, "ErrorCode"))
		})

	// ---- EndTxn
	ccDef("EndTxn", 26, (*kafka.Client).EndTxn,
		func(t *rapid.T, v int16) *kafka.EndTxnRequest {
			return &kafka.EndTxnRequest{TransactionalID: ccStr(t, "transactionalID"), ProducerID: int(ccI64(t, "producerID")), ProducerEpoch: ccInt(t, "producerEpoch", 16), Committed: ccBool(t, "committed")}
		},
		func(k *ccChk, v int16, q *kafka.EndTxnRequest, got ccM) ccM {
			return ccM{"TransactionalID": q.TransactionalID, "ProducerID": int64(q.ProducerID), "ProducerEpoch": int64(q.ProducerEpoch), "Committed": q.Committed}
		}, nil,
		func(k *ccChk, v int16, q *kafka.EndTxnRequest, body ccM, r *kafka.EndTxnResponse) {
			k.dur("Throttle", r.Throttle, bi(body, "ThrottleTimeMs"))
			k.code("Error", r.Error, bi(body, "ErrorCode"))
		})

	// ---- InitProducerID
	ccDef("InitProducerID", 22, (*kafka.Client).InitProducerID,
		func(t *rapid.T, v int16) *kafka.InitProducerIDRequest {
			return &kafka.InitProducerIDRequest{TransactionalID: ccStr(t, "transactionalID"), TransactionTimeoutMs: ccInt(t, "transactionTimeoutMs", 32), ProducerID: int(ccI64(t, "producerID")), ProducerEpoch: ccInt(t, "producerEpoch", 16)}
		},
		func(k *ccChk, v int16, q *kafka.InitProducerIDRequest, got ccM) ccM {
			return ccM{"TransactionalID": q.TransactionalID, "TransactionTimeoutMs": int64(q.TransactionTimeoutMs), "ProducerID": int64(q.ProducerID), "ProducerEpoch": int64(q.ProducerEpoch)}
		}, nil,
		func(k *ccChk, v int16, q *kafka.InitProducerIDRequest, body ccM, r *kafka.InitProducerIDResponse) {
			k.dur("Throttle", r.Throttle, bi(body, "ThrottleTimeMs"))
			k.code("Error", r.Error, bi(body, "ErrorCode"))
			if r.Producer == nil {
				k.failf("Producer", "Producer is nil")
				return
			}
			k.num("Producer.ProducerID", int64(r.Producer.ProducerID), bi(body, "ProducerID"))
			k.num("Producer.ProducerEpoch", int64(r.Producer.ProducerEpoch), bi(body, "ProducerEpoch"))
		})
}

// ---- consumer groups

func ccGenSubscription(t *rapid.T) kafka.GroupProtocolSubscription {
	return kafka.GroupProtocolSubscription{Topics: ccStrs(t, "subTopics"), UserData: ccBytes(t, "subUserData"), OwnedPartitions: ccPartMap(t, "owned")}
}

// ccGenTPs: distinct topics with partition lists.
func ccGenTPs(t *rapid.T, l string) []ccTP {
	var out []ccTP
	for _, name := range ccTopicNames(t, l, 0) {
		tp := ccTP{Topic: name}
		for _, p := range ccInts(t, l+".partitions") {
			tp.Parts = append(tp.Parts, int64(p))
		}
		out = append(out, tp)
	}
	return out
}
func ccIntsOf(xs []int64) []int {
	var out []int
	for _, x := range xs {
		out = append(out, int(x))
	}
	return out
}

func init() {
	// ---- JoinGroup
	ccDef("JoinGroup", 11, (*kafka.Client).JoinGroup,
		func(t *rapid.T, v int16) *kafka.JoinGroupRequest {
			q := &kafka.JoinGroupRequest{GroupID: ccStr(t, "groupID"), SessionTimeout: ccMs(t, "sessionTimeout"), RebalanceTimeout: ccMs(t, "rebalanceTimeout"),
				MemberID: ccStr(t, "memberID"), GroupInstanceID: ccStr(t, "groupInstanceID"), ProtocolType: ccStr(t, "protocolType")}
			for i, n := 0, ccLen(t, "protocols"); i < n; i++ {
				q.Protocols = append(q.Protocols, kafka.GroupProtocol{Name: ccStr(t, "protocolName"), Metadata: ccGenSubscription(t)})
			}
			return q
		},
		func(k *ccChk, v int16, q *kafka.JoinGroupRequest, got ccM) ccM {
			ps, gp := []any{}, ba(got, "Protocols")
			for i, p := range q.Protocols {
				ps = append(ps, ccM{"Name": p.Name})
				if i >= len(gp) {
					continue
				}
				sub, err := ccDecSub(ccBy(gp[i], "Metadata"))
				switch {
				case err != nil:
					k.failf("Protocols.Metadata", "Protocols[%d].Metadata is not a consumer-protocol subscription: %v (%x)", i, err, ccBy(gp[i], "Metadata"))
				case !ccSameStrs(sub.Topics, p.Metadata.Topics):
					k.failf("Protocols.Metadata.Topics", "Protocols[%d].Metadata: topics %q on the wire, %q in the request", i, sub.Topics, p.Metadata.Topics)
				case !bytes.Equal(sub.UserData, p.Metadata.UserData):
					k.failf("Protocols.Metadata.UserData", "Protocols[%d].Metadata: user data %x on the wire, %x in the request", i, sub.UserData, p.Metadata.UserData)
				case !ccSameTPs(ccSortTPs(sub.Owned), ccTPsOfMap(p.Metadata.OwnedPartitions)):
					k.failf("Protocols.Metadata.OwnedPartitions", "Protocols[%d].Metadata: owned partitions %v on the wire, %v in the request", i, sub.Owned, p.Metadata.OwnedPartitions)
				}
			}
			return ccM{"GroupID": q.GroupID, "SessionTimeoutMS": q.SessionTimeout.Milliseconds(), "RebalanceTimeoutMS": q.RebalanceTimeout.Milliseconds(),
				"MemberID": q.MemberID, "GroupInstanceID": q.GroupInstanceID, "ProtocolType": q.ProtocolType, "Protocols": ps}
		},
		func(t *rapid.T, v int16, q *kafka.JoinGroupRequest, body ccM) {
			for _, m := range ba(body, "Members") {
				m["Metadata"] = ccEncSub(ccSub{Version: 1, Topics: ccStrs(t, "memberTopics"), UserData: ccBytes(t, "memberUserData"), Owned: ccGenTPs(t, "memberOwned")})
			}
		},
		func(k *ccChk, v int16, q *kafka.JoinGroupRequest, body ccM, r *kafka.JoinGroupResponse) {
			k.dur("Throttle", r.Throttle, bi(body, "ThrottleTimeMS"))
			k.code("Error", r.Error, bi(body, "ErrorCode"))
			k.num("GenerationID", int64(r.GenerationID), bi(body, "GenerationID"))
			k.str("ProtocolName", r.ProtocolName, ccS(body, "ProtocolName"))
			k.str("ProtocolType", r.ProtocolType, ccS(body, "ProtocolType"))
			k.str("LeaderID", r.LeaderID, ccS(body, "LeaderID"))
			k.str("MemberID", r.MemberID, ccS(body, "MemberID"))
			ms := ba(body, "Members")
			k.num("Members#", int64(len(r.Members)), int64(len(ms)))
			for i := 0; i < len(ms) && i < len(r.Members); i++ {
				g := r.Members[i]
				k.str("Members.ID", g.ID, ccS(ms[i], "MemberID"))
				k.str("Members.GroupInstanceID", g.GroupInstanceID, ccS(ms[i], "GroupInstanceID"))
				sub, _ := ccDecSub(ccBy(ms[i], "Metadata"))
				k.strs("Members.Metadata.Topics", g.Metadata.Topics, sub.Topics)
				k.byt("Members.Metadata.UserData", g.Metadata.UserData, sub.UserData)
				if !ccSameTPs(ccTPsOfMap(g.Metadata.OwnedPartitions), ccSortTPs(sub.Owned)) {
					k.failf("Members.Metadata.OwnedPartitions", "Members[%d].Metadata.OwnedPartitions: %v, the broker encoded %v", i, g.Metadata.OwnedPartitions, sub.Owned)
				}
			}
		})

	// ---- SyncGroup
	ccDef("SyncGroup", 14, (*kafka.Client).SyncGroup,
		func(t *rapid.T, v int16) *kafka.SyncGroupRequest {
			q := &kafka.SyncGroupRequest{GroupID: ccStr(t, "groupID"), GenerationID: ccInt(t, "generationID", 32), MemberID: ccStr(t, "memberID"), GroupInstanceID: ccStr(t, "groupInstanceID"),
				ProtocolType: ccStr(t, "protocolType"), ProtocolName: ccStr(t, "protocolName")}
			for i, n := 0, ccLen(t, "assignments"); i < n; i++ {
				q.Assignments = append(q.Assignments, kafka.SyncGroupRequestAssignment{MemberID: ccStr(t, "assignMemberID"),
					Assignment: kafka.GroupProtocolAssignment{AssignedPartitions: ccPartMap(t, "assigned"), UserData: ccBytes(t, "assignUserData")}})
			}
			return q
		},
		func(k *ccChk, v int16, q *kafka.SyncGroupRequest, got ccM) ccM {
			as, ga := []any{}, ba(got, "Assignments")
			for i, a := range q.Assignments {
				as = append(as, ccM{"MemberID": a.MemberID})
				if i >= len(ga) {
					continue
				}
				asg, err := ccDecAsg(ccBy(ga[i], "Assignment"))
				switch {
				case err != nil:
					k.failf("Assignments.Assignment", "Assignments[%d].Assignment is not a consumer-protocol assignment: %v (%x)", i, err, ccBy(ga[i], "Assignment"))
				case !ccSameTPs(ccSortTPs(asg.Topics), ccTPsOfMap(a.Assignment.AssignedPartitions)):
					k.failf("Assignments.Assignment.AssignedPartitions", "Assignments[%d].Assignment: partitions %v on the wire, %v in the request", i, asg.Topics, a.Assignment.AssignedPartitions)
				case !bytes.Equal(asg.UserData, a.Assignment.UserData):
					k.failf("Assignments.Assignment.UserData", "Assignments[%d].Assignment: user data %x on the wire, %x in the request", i, asg.UserData, a.Assignment.UserData)
				}
			}
			return ccM{"GroupID": q.GroupID, "GenerationID": int64(q.GenerationID), "MemberID": q.MemberID, "GroupInstanceID": q.GroupInstanceID,
				"ProtocolType": q.ProtocolType, "ProtocolName": q.ProtocolName, "Assignments": as}
		},
		func(t *rapid.T, v int16, q *kafka.SyncGroupRequest, body ccM) {
			body["Assignments"] = ccEncAsg(ccAsg{Version: 1, Topics: ccGenTPs(t, "assigned"), UserData: ccBytes(t, "assignedUserData")})
		},
		func(k *ccChk, v int16, q *kafka.SyncGroupRequest, body ccM, r *kafka.SyncGroupResponse) {
			k.dur("Throttle", r.Throttle, bi(body, "ThrottleTimeMS"))
			k.code("Error", r.Error, bi(body, "ErrorCode"))
			k.str("ProtocolType", r.ProtocolType, ccS(body, "ProtocolType"))
			k.str("ProtocolName", r.ProtocolName, ccS(body, "ProtocolName"))
			asg, _ := ccDecAsg(ccBy(body, "Assignments"))
			k.byt("Assignment.UserData", r.Assignment.UserData, asg.UserData)
			// topics without partitions carry no information in a topic -> partitions map
			var want []ccTP
			for _, tp := range ccSortTPs(asg.Topics) {
				if len(tp.Parts) > 0 {
					want = append(want, tp)
				}
			}
			var got []ccTP
			for _, tp := range ccTPsOfMap(r.Assignment.AssignedPartitions) {
				if len(tp.Parts) > 0 {
					got = append(got, tp)
				}
			}
			if !ccSameTPs(got, want) {
				k.failf("Assignment.AssignedPartitions", "Assignment.AssignedPartitions: %v, the broker encoded %v", r.Assignment.AssignedPartitions, asg.Topics)
			}
		})

	// ---- Heartbeat
	ccDef("Heartbeat", 12, (*kafka.Client).Heartbeat,
		func(t *rapid.T, v int16) *kafka.HeartbeatRequest {
			return &kafka.HeartbeatRequest{GroupID: ccStr(t, "groupID"), GenerationID: int32(ccInt(t, "generationID", 32)), MemberID: ccStr(t, "memberID"), GroupInstanceID: ccStr(t, "groupInstanceID")}
		},
		func(k *ccChk, v int16, q *kafka.HeartbeatRequest, got ccM) ccM {
			return ccM{"GroupID": q.GroupID, "GenerationID": int64(q.GenerationID), "MemberID": q.MemberID, "GroupInstanceID": q.GroupInstanceID}
		}, nil,
		func(k *ccChk, v int16, q *kafka.HeartbeatRequest, body ccM, r *kafka.HeartbeatResponse) {
			k.dur("Throttle", r.Throttle, bi(body, "ThrottleTimeMs"))
			k.code("Error", r.Error, bi(body, "ErrorCode"))
		})

	// ---- LeaveGroup (below v3 the wire names one member: one member is generated)
	ccDef("LeaveGroup", 13, (*kafka.Client).LeaveGroup,
		func(t *rapid.T, v int16) *kafka.LeaveGroupRequest {
			q := &kafka.LeaveGroupRequest{GroupID: ccStr(t, "groupID")}
			n := 1
			if v >= 3 {
				n = ccLen1(t, "members")
			}
			for i := 0; i < n; i++ {
				q.Members = append(q.Members, kafka.LeaveGroupRequestMember{ID: ccStr(t, "memberID"), GroupInstanceID: ccStr(t, "groupInstanceID")})
			}
			return q
		},
		func(k *ccChk, v int16, q *kafka.LeaveGroupRequest, got ccM) ccM {
			ms := []any{}
			for _, m := range q.Members {
				ms = append(ms, ccM{"MemberID": m.ID, "GroupInstanceID": m.GroupInstanceID})
			}
			return ccM{"GroupID": q.GroupID, "MemberID": q.Members[0].ID, "Members": ms}
		}, nil,
		func(k *ccChk, v int16, q *kafka.LeaveGroupRequest, body ccM, r *kafka.LeaveGroupResponse) {
			k.dur("Throttle", r.Throttle, bi(body, "ThrottleTimeMS"))
			k.code("Error", r.Error, bi(body, "ErrorCode"))
			ms := ba(body, "Members")
			if len(ms) == 0 {
				k.label("leavegroup_no_members_in_response")
				return
			}
			k.num("Members#", int64(len(r.Members)), int64(len(ms)))
			for i := 0; i < len(ms) && i < len(r.Members); i++ {
				k.str("Members.ID", r.Members[i].ID, ccS(ms[i], "MemberID"))
				k.str("Members.GroupInstanceID", r.Members[i].GroupInstanceID, ccS(ms[i], "GroupInstanceID"))
				k.code("Members.Error", r.Members[i].Error, bi(ms[i], "ErrorCode"))
			}
		})

	// ---- DescribeGroups (the Transport sends one request per group: one group is generated)
	ccDef("DescribeGroups", 15, (*kafka.Client).DescribeGroups,
		func(t *rapid.T, v int16) *kafka.DescribeGroupsRequest {
			return &kafka.DescribeGroupsRequest{GroupIDs: []string{ccStr(t, "groupID")}}
		},
		func(k *ccChk, v int16, q *kafka.DescribeGroupsRequest, got ccM) ccM {
			return ccM{"Groups": ccStrArr(q.GroupIDs)}
		},
		func(t *rapid.T, v int16, q *kafka.DescribeGroupsRequest, body ccM) {
			for _, g := range ba(body, "Groups") {
				for _, m := range ba(g, "Members") {
					if rapid.IntRange(0, 5).Draw(t, "emptyMetadata") == 0 {
						m["MemberMetadata"] = []byte{}
					} else {
						sub := ccSub{Version: int16(rapid.IntRange(0, 1).Draw(t, "subVersion")), Topics: ccStrs(t, "memberTopics"), UserData: ccBytes(t, "memberUserData")}
						if sub.Version == 1 {
							sub.Owned = ccGenTPs(t, "memberOwned")
						}
						m["MemberMetadata"] = ccEncSub(sub)
					}
					if rapid.IntRange(0, 5).Draw(t, "emptyAssignment") == 0 {
						m["MemberAssignment"] = []byte{}
					} else {
						m["MemberAssignment"] = ccEncAsg(ccAsg{Version: int16(rapid.IntRange(0, 1).Draw(t, "asgVersion")), Topics: ccGenTPs(t, "assigned"), UserData: ccBytes(t, "assignedUserData")})
					}
				}
			}
		},
		func(k *ccChk, v int16, q *kafka.DescribeGroupsRequest, body ccM, r *kafka.DescribeGroupsResponse) {
			gs := ba(body, "Groups")
			k.num("Groups#", int64(len(r.Groups)), int64(len(gs)))
			for i := 0; i < len(gs) && i < len(r.Groups); i++ {
				g := r.Groups[i]
				k.code("Groups.Error", g.Error, bi(gs[i], "ErrorCode"))
				k.str("Groups.GroupID", g.GroupID, ccS(gs[i], "GroupID"))
				k.str("Groups.GroupState", g.GroupState, ccS(gs[i], "GroupState"))
				ms := ba(gs[i], "Members")
				k.num("Groups.Members#", int64(len(g.Members)), int64(len(ms)))
				for j := 0; j < len(ms) && j < len(g.Members); j++ {
					m := g.Members[j]
					k.str("Groups.Members.MemberID", m.MemberID, ccS(ms[j], "MemberID"))
					k.str("Groups.Members.ClientID", m.ClientID, ccS(ms[j], "ClientID"))
					k.str("Groups.Members.ClientHost", m.ClientHost, ccS(ms[j], "ClientHost"))
					if b := ccBy(ms[j], "MemberMetadata"); len(b) > 0 {
						sub, _ := ccDecSub(b)
						k.num("Groups.Members.MemberMetadata.Version", int64(m.MemberMetadata.Version), int64(sub.Version))
						k.strs("Groups.Members.MemberMetadata.Topics", m.MemberMetadata.Topics, sub.Topics)
						k.byt("Groups.Members.MemberMetadata.UserData", m.MemberMetadata.UserData, sub.UserData)
						var got []ccTP
						for _, o := range m.MemberMetadata.OwnedPartitions {
							tp := ccTP{Topic: o.Topic}
							for _, p := range o.Partitions {
								tp.Parts = append(tp.Parts, int64(p))
							}
							got = append(got, tp)
						}
						if !ccSameTPs(got, sub.Owned) {
							k.failf("Groups.Members.MemberMetadata.OwnedPartitions", "Groups[%d].Members[%d].MemberMetadata.OwnedPartitions: %v, the broker encoded %v", i, j, got, sub.Owned)
						}
					}
					if b := ccBy(ms[j], "MemberAssignment"); len(b) > 0 {
						asg, _ := ccDecAsg(b)
						k.num("Groups.Members.MemberAssignments.Version", int64(m.MemberAssignments.Version), int64(asg.Version))
						k.byt("Groups.Members.MemberAssignments.UserData", m.MemberAssignments.UserData, asg.UserData)
						var got []ccTP
						for _, o := range m.MemberAssignments.Topics {
							tp := ccTP{Topic: o.Topic}
							for _, p := range o.Partitions {
								tp.Parts = append(tp.Parts, int64(p))
							}
							got = append(got, tp)
						}
						if !ccSameTPs(got, asg.Topics) {
							k.failf("Groups.Members.MemberAssignments.Topics", "Groups[%d].Members[%d].MemberAssignments.Topics: %v, the broker encoded %v", i, j, got, asg.Topics)
						}
					}
				}
			}
		})

	// ---- ListGroups (one broker: one request; Coordinator = the broker that answered)
	ccDef("ListGroups", 16, (*kafka.Client).ListGroups,
		func(t *rapid.T, v int16) *kafka.ListGroupsRequest { return &kafka.ListGroupsRequest{} },
		func(k *ccChk, v int16, q *kafka.ListGroupsRequest, got ccM) ccM { return ccM{} }, nil,
		func(k *ccChk, v int16, q *kafka.ListGroupsRequest, body ccM, r *kafka.ListGroupsResponse) {
			k.code("Error", r.Error, bi(body, "ErrorCode"))
			gs := ba(body, "Groups")
			k.num("Groups#", int64(len(r.Groups)), int64(len(gs)))
			for i := 0; i < len(gs) && i < len(r.Groups); i++ {
				k.str("Groups.GroupID", r.Groups[i].GroupID, ccS(gs[i], "GroupID"))
				k.str("Groups.ProtocolType", r.Groups[i].ProtocolType, ccS(gs[i], "ProtocolType"))
				k.num("Groups.Coordinator", int64(r.Groups[i].Coordinator), 1)
			}
		})

	// ---- DeleteGroups
	ccDef("DeleteGroups", 42, (*kafka.Client).DeleteGroups,
		func(t *rapid.T, v int16) *kafka.DeleteGroupsRequest {
			return &kafka.DeleteGroupsRequest{GroupIDs: ccStrs(t, "groupIDs")}
		},
		func(k *ccChk, v int16, q *kafka.DeleteGroupsRequest, got ccM) ccM {
			return ccM{"GroupIDs": ccStrArr(q.GroupIDs)}
		},
		func(t *rapid.T, v int16, q *kafka.DeleteGroupsRequest, body ccM) {
			ccUnique(ba(body, "Responses"), "GroupID")
		},
		func(k *ccChk, v int16, q *kafka.DeleteGroupsRequest, body ccM, r *kafka.DeleteGroupsResponse) {
			k.dur("Throttle", r.Throttle, bi(body, "ThrottleTimeMs"))
			ccErrMap(k, "Errors", r.Errors, ba(body, "Responses"), "GroupID")
		})

	// ---- FindCoordinator
	ccDef("FindCoordinator", 10, (*kafka.Client).FindCoordinator,
		func(t *rapid.T, v int16) *kafka.FindCoordinatorRequest {
			return &kafka.FindCoordinatorRequest{Key: ccStr(t, "key"), KeyType: kafka.CoordinatorKeyType(rapid.IntRange(0, 1).Draw(t, "keyType"))}
		},
		func(k *ccChk, v int16, q *kafka.FindCoordinatorRequest, got ccM) ccM {
			return ccM{"Key": q.Key, "KeyType": int64(q.KeyType)}
		}, nil,
		func(k *ccChk, v int16, q *kafka.FindCoordinatorRequest, body ccM, r *kafka.FindCoordinatorResponse) {
			k.dur("Throttle", r.Throttle, bi(body, "ThrottleTimeMs"))
			k.code("Error", r.Error, bi(body, "ErrorCode"))
			if r.Coordinator == nil {
				k.failf("Coordinator", "Coordinator is nil")
				return
			}
			k.num("Coordinator.NodeID", int64(r.Coordinator.NodeID), bi(body, "NodeID"))
			k.str("Coordinator.Host", r.Coordinator.Host, ccS(body, "Host"))
			k.num("Coordinator.Port", int64(r.Coordinator.Port), bi(body, "Port"))
		})
}

// ---- ACLs, configs, reassignments, quotas, SCRAM

func ccACLFields(rt kafka.ResourceType, name string, pt kafka.PatternType, principal, host string, op kafka.ACLOperationType, perm kafka.ACLPermissionType, filter bool) ccM {
	if filter {
		return ccM{"ResourceTypeFilter": int64(rt), "ResourceNameFilter": name, "ResourcePatternTypeFilter": int64(pt), "PrincipalFilter": principal, "HostFilter": host, "Operation": int64(op), "PermissionType": int64(perm)}
	}
	return ccM{"ResourceType": int64(rt), "ResourceName": name, "ResourcePatternType": int64(pt), "Principal": principal, "Host": host, "Operation": int64(op), "PermissionType": int64(perm)}
}

func init() {
	// ---- CreateACLs
	ccDef("CreateACLs", 30, (*kafka.Client).CreateACLs,
		func(t *rapid.T, v int16) *kafka.CreateACLsRequest {
			q := &kafka.CreateACLsRequest{}
			for i, n := 0, ccLen(t, "acls"); i < n; i++ {
				q.ACLs = append(q.ACLs, kafka.ACLEntry{ResourceType: rapid.SampledFrom(ccResourceTypes).Draw(t, "resourceType"), ResourceName: ccStr(t, "resourceName"),
					ResourcePatternType: rapid.SampledFrom(ccPatternTypes).Draw(t, "patternType"), Principal: ccStr(t, "principal"), Host: ccStr(t, "host"),
					Operation: rapid.SampledFrom(ccOperations).Draw(t, "operation"), PermissionType: rapid.SampledFrom(ccPermissions).Draw(t, "permission")})
			}
			return q
		},
		func(k *ccChk, v int16, q *kafka.CreateACLsRequest, got ccM) ccM {
			cs := []any{}
			for _, a := range q.ACLs {
				cs = append(cs, ccACLFields(a.ResourceType, a.ResourceName, a.ResourcePatternType, a.Principal, a.Host, a.Operation, a.PermissionType, false))
			}
			return ccM{"Creations": cs}
		}, nil,
		func(k *ccChk, v int16, q *kafka.CreateACLsRequest, body ccM, r *kafka.CreateACLsResponse) {
			k.dur("Throttle", r.Throttle, bi(body, "ThrottleTimeMs"))
			rs := ba(body, "Results")
			k.num("Errors#", int64(len(r.Errors)), int64(len(rs)))
			for i := 0; i < len(rs) && i < len(r.Errors); i++ {
				k.code("Errors", r.Errors[i], bi(rs[i], "ErrorCode"))
			}
		})

	// ---- DescribeACLs (v2/v3 requests: known finding F8, see the head of the file)
	ccDef("DescribeACLs", 29, (*kafka.Client).DescribeACLs,
		func(t *rapid.T, v int16) *kafka.DescribeACLsRequest {
			return &kafka.DescribeACLsRequest{Filter: kafka.ACLFilter{ResourceTypeFilter: rapid.SampledFrom(ccResourceTypes).Draw(t, "resourceType"), ResourceNameFilter: ccStr(t, "resourceName"),
				ResourcePatternTypeFilter: rapid.SampledFrom(ccPatternTypes).Draw(t, "patternType"), PrincipalFilter: ccStr(t, "principal"), HostFilter: ccStr(t, "host"),
				Operation: rapid.SampledFrom(ccOperations).Draw(t, "operation"), PermissionType: rapid.SampledFrom(ccPermissions).Draw(t, "permission")}}
		},
		func(k *ccChk, v int16, q *kafka.DescribeACLsRequest, got ccM) ccM {
			f := q.Filter
			return ccM{"Filter": ccACLFields(f.ResourceTypeFilter, f.ResourceNameFilter, f.ResourcePatternTypeFilter, f.PrincipalFilter, f.HostFilter, f.Operation, f.PermissionType, true)}
		}, nil,
		func(k *ccChk, v int16, q *kafka.DescribeACLsRequest, body ccM, r *kafka.DescribeACLsResponse) {
			k.dur("Throttle", r.Throttle, bi(body, "ThrottleTimeMs"))
			k.code("Error", r.Error, bi(body, "ErrorCode"))
			rs := ba(body, "Resources")
			k.num("Resources#", int64(len(r.Resources)), int64(len(rs)))
			for i := 0; i < len(rs) && i < len(r.Resources); i++ {
				g := r.Resources[i]
				k.num("Resources.ResourceType", int64(g.ResourceType), bi(rs[i], "ResourceType"))
				k.str("Resources.ResourceName", g.ResourceName, ccS(rs[i], "ResourceName"))
				k.num("Resources.PatternType", int64(g.PatternType), bi(rs[i], "PatternType"))
				as := ba(rs[i], "ACLs")
				k.num("Resources.ACLs#", int64(len(g.ACLs)), int64(len(as)))
				for j := 0; j < len(as) && j < len(g.ACLs); j++ {
					k.str("Resources.ACLs.Principal", g.ACLs[j].Principal, ccS(as[j], "Principal"))
					k.str("Resources.ACLs.Host", g.ACLs[j].Host, ccS(as[j], "Host"))
					k.num("Resources.ACLs.Operation", int64(g.ACLs[j].Operation), bi(as[j], "Operation"))
					k.num("Resources.ACLs.PermissionType", int64(g.ACLs[j].PermissionType), bi(as[j], "PermissionType"))
				}
			}
		})

	// ---- DeleteACLs
	ccDef("DeleteACLs", 31, (*kafka.Client).DeleteACLs,
		func(t *rapid.T, v int16) *kafka.DeleteACLsRequest {
			q := &kafka.DeleteACLsRequest{}
			for i, n := 0, ccLen(t, "filters"); i < n; i++ {
				q.Filters = append(q.Filters, kafka.DeleteACLsFilter{ResourceTypeFilter: rapid.SampledFrom(ccResourceTypes).Draw(t, "resourceType"), ResourceNameFilter: ccStr(t, "resourceName"),
					ResourcePatternTypeFilter: rapid.SampledFrom(ccPatternTypes).Draw(t, "patternType"), PrincipalFilter: ccStr(t, "principal"), HostFilter: ccStr(t, "host"),
					Operation: rapid.SampledFrom(ccOperations).Draw(t, "operation"), PermissionType: rapid.SampledFrom(ccPermissions).Draw(t, "permission")})
			}
			return q
		},
		func(k *ccChk, v int16, q *kafka.DeleteACLsRequest, got ccM) ccM {
			fs := []any{}
			for _, f := range q.Filters {
				fs = append(fs, ccACLFields(f.ResourceTypeFilter, f.ResourceNameFilter, f.ResourcePatternTypeFilter, f.PrincipalFilter, f.HostFilter, f.Operation, f.PermissionType, true))
			}
			return ccM{"Filters": fs}
		}, nil,
		func(k *ccChk, v int16, q *kafka.DeleteACLsRequest, body ccM, r *kafka.DeleteACLsResponse) {
			k.dur("Throttle", r.Throttle, bi(body, "ThrottleTimeMs"))
			rs := ba(body, "FilterResults")
			k.num("Results#", int64(len(r.Results)), int64(len(rs)))
			for i := 0; i < len(rs) && i < len(r.Results); i++ {
				k.code("Results.Error", r.Results[i].Error, bi(rs[i], "ErrorCode"))
				ms, g := ba(rs[i], "MatchingACLs"), r.Results[i].MatchingACLs
				k.num("Results.MatchingACLs#", int64(len(g)), int64(len(ms)))
				for j := 0; j < len(ms) && j < len(g); j++ {
					k.code("Results.MatchingACLs.Error", g[j].Error, bi(ms[j], "ErrorCode"))
					k.num("Results.MatchingACLs.ResourceType", int64(g[j].ResourceType), bi(ms[j], "ResourceType"))
					k.str("Results.MatchingACLs.ResourceName", g[j].ResourceName, ccS(ms[j], "ResourceName"))
					k.num("Results.MatchingACLs.ResourcePatternType", int64(g[j].ResourcePatternType), bi(ms[j], "ResourcePatternType"))
					k.str("Results.MatchingACLs.Principal", g[j].Principal, ccS(ms[j], "Principal"))
					k.str("Results.MatchingACLs.Host", g[j].Host, ccS(ms[j], "Host"))
					k.num("Results.MatchingACLs.Operation", int64(g[j].Operation), bi(ms[j], "Operation"))
					k.num("Results.MatchingACLs.PermissionType", int64(g[j].PermissionType), bi(ms[j], "PermissionType"))
				}
			}
		})

	// ---- DescribeConfigs (no broker resources: those are split off into requests of their own; >= 1 resource: none means no request)
	ccDef("DescribeConfigs", 32, (*kafka.Client).DescribeConfigs,
		func(t *rapid.T, v int16) *kafka.DescribeConfigsRequest {
			q := &kafka.DescribeConfigsRequest{IncludeSynonyms: ccBool(t, "includeSynonyms"), IncludeDocumentation: ccBool(t, "includeDocumentation")}
			for i, n := 0, ccLen1(t, "resources"); i < n; i++ {
				q.Resources = append(q.Resources, kafka.DescribeConfigRequestResource{ResourceType: rapid.SampledFrom(ccResourceTypesNoBroker).Draw(t, "resourceType"), ResourceName: ccStr(t, "resourceName"), ConfigNames: ccStrs(t, "configNames")})
			}
			return q
		},
		func(k *ccChk, v int16, q *kafka.DescribeConfigsRequest, got ccM) ccM {
			rs := []any{}
			for _, r := range q.Resources {
				rs = append(rs, ccM{"ResourceType": int64(r.ResourceType), "ResourceName": r.ResourceName, "ConfigNames": ccStrArr(r.ConfigNames)})
			}
			return ccM{"Resources": rs, "IncludeSynonyms": q.IncludeSynonyms, "IncludeDocumentation": q.IncludeDocumentation}
		}, nil,
		func(k *ccChk, v int16, q *kafka.DescribeConfigsRequest, body ccM, r *kafka.DescribeConfigsResponse) {
			k.dur("Throttle", r.Throttle, bi(body, "ThrottleTimeMs"))
			rs := ba(body, "Resources")
			k.num("Resources#", int64(len(r.Resources)), int64(len(rs)))
			for i := 0; i < len(rs) && i < len(r.Resources); i++ {
				g := r.Resources[i]
				k.num("Resources.ResourceType", int64(g.ResourceType), bi(rs[i], "ResourceType"))
				k.str("Resources.ResourceName", g.ResourceName, ccS(rs[i], "ResourceName"))
				k.code("Resources.Error", g.Error, bi(rs[i], "ErrorCode"))
				es := ba(rs[i], "ConfigEntries")
				k.num("Resources.ConfigEntries#", int64(len(g.ConfigEntries)), int64(len(es)))
				for j := 0; j < len(es) && j < len(g.ConfigEntries); j++ {
					e, w := g.ConfigEntries[j], es[j]
					k.str("Resources.ConfigEntries.ConfigName", e.ConfigName, ccS(w, "ConfigName"))
					k.str("Resources.ConfigEntries.ConfigValue", e.ConfigValue, ccS(w, "ConfigValue"))
					k.eq("Resources.ConfigEntries.ReadOnly", e.ReadOnly, ccB(w, "ReadOnly"))
					k.eq("Resources.ConfigEntries.IsDefault", e.IsDefault, ccB(w, "IsDefault"))
					k.num("Resources.ConfigEntries.ConfigSource", int64(e.ConfigSource), bi(w, "ConfigSource"))
					k.eq("Resources.ConfigEntries.IsSensitive", e.IsSensitive, ccB(w, "IsSensitive"))
					k.num("Resources.ConfigEntries.ConfigType", int64(e.ConfigType), bi(w, "ConfigType"))
					k.str("Resources.ConfigEntries.ConfigDocumentation", e.ConfigDocumentation, ccS(w, "ConfigDocumentation"))
					ss := ba(w, "ConfigSynonyms")
					k.num("Resources.ConfigEntries.ConfigSynonyms#", int64(len(e.ConfigSynonyms)), int64(len(ss)))
					for x := 0; x < len(ss) && x < len(e.ConfigSynonyms); x++ {
						k.str("Resources.ConfigEntries.ConfigSynonyms.ConfigName", e.ConfigSynonyms[x].ConfigName, ccS(ss[x], "ConfigName"))
						k.str("Resources.ConfigEntries.ConfigSynonyms.ConfigValue", e.ConfigSynonyms[x].ConfigValue, ccS(ss[x], "ConfigValue"))
						k.num("Resources.ConfigEntries.ConfigSynonyms.ConfigSource", int64(e.ConfigSynonyms[x].ConfigSource), bi(ss[x], "ConfigSource"))
					}
				}
			}
		})

	// ---- AlterConfigs
	ccDef("AlterConfigs", 33, (*kafka.Client).AlterConfigs,
		func(t *rapid.T, v int16) *kafka.AlterConfigsRequest {
			q := &kafka.AlterConfigsRequest{ValidateOnly: ccBool(t, "validateOnly")}
			for i, n := 0, ccLen(t, "resources"); i < n; i++ {
				r := kafka.AlterConfigRequestResource{ResourceType: rapid.SampledFrom(ccResourceTypes).Draw(t, "resourceType"), ResourceName: ccStr(t, "resourceName")}
				for j, m := 0, ccLen(t, "configs"); j < m; j++ {
					r.Configs = append(r.Configs, kafka.AlterConfigRequestConfig{Name: ccStr(t, "name"), Value: ccStr(t, "value")})
				}
				q.Resources = append(q.Resources, r)
			}
			return q
		},
		func(k *ccChk, v int16, q *kafka.AlterConfigsRequest, got ccM) ccM {
			rs := []any{}
			for _, r := range q.Resources {
				cs := []any{}
				for _, c := range r.Configs {
					cs = append(cs, ccM{"Name": c.Name, "Value": c.Value})
				}
				rs = append(rs, ccM{"ResourceType": int64(r.ResourceType), "ResourceName": r.ResourceName, "Configs": cs})
			}
			return ccM{"Resources": rs, "ValidateOnly": q.ValidateOnly}
		},
		func(t *rapid.T, v int16, q *kafka.AlterConfigsRequest, body ccM) {
			ccUnique(ba(body, "Responses"), "ResourceName")
		},
		func(k *ccChk, v int16, q *kafka.AlterConfigsRequest, body ccM, r *kafka.AlterConfigsResponse) {
			k.dur("Throttle", r.Throttle, bi(body, "ThrottleTimeMs"))
			rs := ba(body, "Responses")
			k.num("Errors#", int64(len(r.Errors)), int64(len(rs)))
			for _, w := range rs {
				err, ok := r.Errors[kafka.AlterConfigsResponseResource{Type: int8(bi(w, "ResourceType")), Name: ccS(w, "ResourceName")}]
				if !ok {
					k.failf("Errors", "Errors: no entry for resource type %d name %q, which the broker encoded", bi(w, "ResourceType"), ccS(w, "ResourceName"))
					continue
				}
				k.code("Errors", err, bi(w, "ErrorCode"))
			}
		})

	// ---- IncrementalAlterConfigs (at most one broker resource, named after the broker id)
	ccDef("IncrementalAlterConfigs", 44, (*kafka.Client).IncrementalAlterConfigs,
		func(t *rapid.T, v int16) *kafka.IncrementalAlterConfigsRequest {
			q := &kafka.IncrementalAlterConfigsRequest{ValidateOnly: ccBool(t, "validateOnly")}
			for i, n := 0, ccLen(t, "resources"); i < n; i++ {
				r := kafka.IncrementalAlterConfigsRequestResource{ResourceType: rapid.SampledFrom(ccResourceTypes).Draw(t, "resourceType"), ResourceName: ccStr(t, "resourceName")}
				if r.ResourceType == kafka.ResourceTypeBroker {
					r.ResourceName = "1"
				}
				for j, m := 0, ccLen(t, "configs"); j < m; j++ {
					r.Configs = append(r.Configs, kafka.IncrementalAlterConfigsRequestConfig{Name: ccStr(t, "name"), Value: ccStr(t, "value"), ConfigOperation: kafka.ConfigOperation(rapid.IntRange(0, 3).Draw(t, "op"))})
				}
				q.Resources = append(q.Resources, r)
			}
			return q
		},
		func(k *ccChk, v int16, q *kafka.IncrementalAlterConfigsRequest, got ccM) ccM {
			rs := []any{}
			for _, r := range q.Resources {
				cs := []any{}
				for _, c := range r.Configs {
					cs = append(cs, ccM{"Name": c.Name, "ConfigOperation": int64(c.ConfigOperation), "Value": c.Value})
				}
				rs = append(rs, ccM{"ResourceType": int64(r.ResourceType), "ResourceName": r.ResourceName, "Configs": cs})
			}
			return ccM{"Resources": rs, "ValidateOnly": q.ValidateOnly}
		}, nil,
		func(k *ccChk, v int16, q *kafka.IncrementalAlterConfigsRequest, body ccM, r *kafka.IncrementalAlterConfigsResponse) {
			rs := ba(body, "Responses")
			k.num("Resources#", int64(len(r.Resources)), int64(len(rs)))
			for i := 0; i < len(rs) && i < len(r.Resources); i++ {
				k.code("Resources.Error", r.Resources[i].Error, bi(rs[i], "ErrorCode"))
				k.num("Resources.ResourceType", int64(r.Resources[i].ResourceType), bi(rs[i], "ResourceType"))
				k.str("Resources.ResourceName", r.Resources[i].ResourceName, ccS(rs[i], "ResourceName"))
			}
		})

	// ---- AlterPartitionReassignments
	ccDef("AlterPartitionReassignments", 45, (*kafka.Client).AlterPartitionReassignments,
		func(t *rapid.T, v int16) *kafka.AlterPartitionReassignmentsRequest {
			q := &kafka.AlterPartitionReassignmentsRequest{Topic: ccName(t, "topic"), Timeout: ccMs(t, "timeout")}
			for i, n := 0, ccLen(t, "assignments"); i < n; i++ {
				a := kafka.AlterPartitionReassignmentsRequestAssignment{PartitionID: ccInt(t, "partitionID", 32), BrokerIDs: ccInts(t, "brokerIDs")}
				if ccBool(t, "ownTopic") {
					a.Topic = ccName(t, "assignmentTopic")
				}
				q.Assignments = append(q.Assignments, a)
			}
			return q
		},
		func(k *ccChk, v int16, q *kafka.AlterPartitionReassignmentsRequest, got ccM) ccM {
			ccSortBy(got, "Topics", "Name")
			byTopic := map[string][]any{}
			nullWanted := map[string][]bool{}
			for _, a := range q.Assignments {
				name := a.Topic
				if name == "" {
					name = q.Topic
				}
				byTopic[name] = append(byTopic[name], ccM{"PartitionIndex": int64(a.PartitionID), "Replicas": ccIntArr(a.BrokerIDs)})
				nullWanted[name] = append(nullWanted[name], a.BrokerIDs == nil)
			}
			topics := []any{}
			for _, name := range ccKeys(byTopic) {
				topics = append(topics, ccM{"Name": name, "Partitions": byTopic[name]})
			}
			// "BrokerIDs ... or null to cancel a pending reassignment for this partition": nil must travel as null
			gt := ba(got, "Topics")
			for i, name := range ccKeys(byTopic) {
				if i >= len(gt) || ccS(gt[i], "Name") != name {
					break
				}
				gp := ba(gt[i], "Partitions")
				for j, isNil := range nullWanted[name] {
					if j < len(gp) && isNil && gp[j]["Replicas"] != nil {
						k.failf("Topics.Partitions.Replicas-null", "Topics[%q].Partitions[%d].Replicas: the request has BrokerIDs == nil (documented: null cancels a pending reassignment), the wire carries the non-null array %v", name, j, gp[j]["Replicas"])
					}
				}
			}
			return ccM{"TimeoutMs": q.Timeout.Milliseconds(), "Topics": topics}
		}, nil,
		func(k *ccChk, v int16, q *kafka.AlterPartitionReassignmentsRequest, body ccM, r *kafka.AlterPartitionReassignmentsResponse) {
			k.code("Error", r.Error, bi(body, "ErrorCode"))
			i := 0
			for _, t := range ba(body, "Results") {
				for _, p := range ba(t, "Partitions") {
					if i < len(r.PartitionResults) {
						g := r.PartitionResults[i]
						k.str("PartitionResults.Topic", g.Topic, ccS(t, "Name"))
						k.num("PartitionResults.PartitionID", int64(g.PartitionID), bi(p, "PartitionIndex"))
						k.code("PartitionResults.Error", g.Error, bi(p, "ErrorCode"))
					}
					i++
				}
			}
			k.num("PartitionResults#", int64(len(r.PartitionResults)), int64(i))
		})

	// ---- ListPartitionReassignments
	ccDef("ListPartitionReassignments", 46, (*kafka.Client).ListPartitionReassignments,
		func(t *rapid.T, v int16) *kafka.ListPartitionReassignmentsRequest {
			q := &kafka.ListPartitionReassignmentsRequest{Timeout: ccMs(t, "timeout")}
			if m := ccPartMap(t, "topics"); m != nil {
				q.Topics = map[string]kafka.ListPartitionReassignmentsRequestTopic{}
				for name, ps := range m {
					q.Topics[name] = kafka.ListPartitionReassignmentsRequestTopic{PartitionIndexes: ps}
				}
			}
			return q
		},
		func(k *ccChk, v int16, q *kafka.ListPartitionReassignmentsRequest, got ccM) ccM {
			ccSortBy(got, "Topics", "Name")
			topics := []any{}
			for _, name := range ccKeys(q.Topics) {
				topics = append(topics, ccM{"Name": name, "PartitionIndexes": ccIntArr(q.Topics[name].PartitionIndexes)})
			}
			return ccM{"TimeoutMs": q.Timeout.Milliseconds(), "Topics": topics}
		},
		func(t *rapid.T, v int16, q *kafka.ListPartitionReassignmentsRequest, body ccM) {
			ccUnique(ba(body, "Topics"), "Name")
		},
		func(k *ccChk, v int16, q *kafka.ListPartitionReassignmentsRequest, body ccM, r *kafka.ListPartitionReassignmentsResponse) {
			k.code("Error", r.Error, bi(body, "ErrorCode"))
			ts := ba(body, "Topics")
			k.num("Topics#", int64(len(r.Topics)), int64(len(ts)))
			for _, t := range ts {
				g, ps := r.Topics[ccS(t, "Name")].Partitions, ba(t, "Partitions")
				k.num("Topics.Partitions#", int64(len(g)), int64(len(ps)))
				for i := 0; i < len(ps) && i < len(g); i++ {
					k.num("Topics.Partitions.PartitionIndex", int64(g[i].PartitionIndex), bi(ps[i], "PartitionIndex"))
					k.ints("Topics.Partitions.Replicas", g[i].Replicas, ccI64s(ps[i], "Replicas"))
					k.ints("Topics.Partitions.AddingReplicas", g[i].AddingReplicas, ccI64s(ps[i], "AddingReplicas"))
					k.ints("Topics.Partitions.RemovingReplicas", g[i].RemovingReplicas, ccI64s(ps[i], "RemovingReplicas"))
				}
			}
		})

	// ---- ElectLeaders
	ccDef("ElectLeaders", 43, (*kafka.Client).ElectLeaders,
		func(t *rapid.T, v int16) *kafka.ElectLeadersRequest {
			return &kafka.ElectLeadersRequest{Topic: ccStr(t, "topic"), Partitions: ccInts(t, "partitions"), Timeout: ccMs(t, "timeout")}
		},
		func(k *ccChk, v int16, q *kafka.ElectLeadersRequest, got ccM) ccM {
			return ccM{"TopicPartitions": []any{ccM{"Topic": q.Topic, "PartitionIDs": ccIntArr(q.Partitions)}}, "TimeoutMs": q.Timeout.Milliseconds()}
		}, nil,
		func(k *ccChk, v int16, q *kafka.ElectLeadersRequest, body ccM, r *kafka.ElectLeadersResponse) {
			k.code("Error", r.Error, bi(body, "ErrorCode"))
			i := 0
			for _, t := range ba(body, "ReplicaElectionResults") {
				for _, p := range ba(t, "PartitionResults") {
					if i < len(r.PartitionResults) {
						k.num("PartitionResults.Partition", int64(r.PartitionResults[i].Partition), bi(p, "PartitionID"))
						k.code("PartitionResults.Error", r.PartitionResults[i].Error, bi(p, "ErrorCode"))
					}
					i++
				}
			}
			k.num("PartitionResults#", int64(len(r.PartitionResults)), int64(i))
		})

	// ---- DescribeClientQuotas
	ccDef("DescribeClientQuotas", 48, (*kafka.Client).DescribeClientQuotas,
		func(t *rapid.T, v int16) *kafka.DescribeClientQuotasRequest {
			q := &kafka.DescribeClientQuotasRequest{Strict: ccBool(t, "strict")}
			for i, n := 0, ccLen(t, "components"); i < n; i++ {
				q.Components = append(q.Components, kafka.DescribeClientQuotasRequestComponent{EntityType: ccStr(t, "entityType"), MatchType: int8(rapid.IntRange(0, 2).Draw(t, "matchType")), Match: ccStr(t, "match")})
			}
			return q
		},
		func(k *ccChk, v int16, q *kafka.DescribeClientQuotasRequest, got ccM) ccM {
			cs := []any{}
			for _, c := range q.Components {
				cs = append(cs, ccM{"EntityType": c.EntityType, "MatchType": int64(c.MatchType), "Match": c.Match})
			}
			return ccM{"Components": cs, "Strict": q.Strict}
		}, nil,
		func(k *ccChk, v int16, q *kafka.DescribeClientQuotasRequest, body ccM, r *kafka.DescribeClientQuotasResponse) {
			k.dur("Throttle", r.Throttle, bi(body, "ThrottleTimeMs"))
			k.code("Error", r.Error, bi(body, "ErrorCode"))
			es := ba(body, "Entries")
			k.num("Entries#", int64(len(r.Entries)), int64(len(es)))
			for i := 0; i < len(es) && i < len(r.Entries); i++ {
				ens, g := ba(es[i], "Entities"), r.Entries[i]
				k.num("Entries.Entities#", int64(len(g.Entities)), int64(len(ens)))
				for j := 0; j < len(ens) && j < len(g.Entities); j++ {
					k.str("Entries.Entities.EntityType", g.Entities[j].EntityType, ccS(ens[j], "EntityType"))
					k.str("Entries.Entities.EntityName", g.Entities[j].EntityName, ccS(ens[j], "EntityName"))
				}
				vs := ba(es[i], "Values")
				k.num("Entries.Values#", int64(len(g.Values)), int64(len(vs)))
				for j := 0; j < len(vs) && j < len(g.Values); j++ {
					k.str("Entries.Values.Key", g.Values[j].Key, ccS(vs[j], "Key"))
					if w := ccF(vs[j], "Value"); g.Values[j].Value != w && !(w != w && g.Values[j].Value != g.Values[j].Value) {
						k.failf("Entries.Values.Value", "Entries[%d].Values[%d].Value: %v, the broker encoded %v", i, j, g.Values[j].Value, w)
					}
				}
			}
		})

	// ---- AlterClientQuotas
	ccDef("AlterClientQuotas", 49, (*kafka.Client).AlterClientQuotas,
		func(t *rapid.T, v int16) *kafka.AlterClientQuotasRequest {
			q := &kafka.AlterClientQuotasRequest{ValidateOnly: ccBool(t, "validateOnly")}
			for i, n := 0, ccLen(t, "entries"); i < n; i++ {
				e := kafka.AlterClientQuotaEntry{}
				for j, m := 0, ccLen(t, "entities"); j < m; j++ {
					e.Entities = append(e.Entities, kafka.AlterClientQuotaEntity{EntityType: ccStr(t, "entityType"), EntityName: ccStr(t, "entityName")})
				}
				for j, m := 0, ccLen(t, "ops"); j < m; j++ {
					e.Ops = append(e.Ops, kafka.AlterClientQuotaOps{Key: ccStr(t, "key"), Value: rapid.Float64Range(-1e12, 1e12).Draw(t, "value"), Remove: ccBool(t, "remove")})
				}
				q.Entries = append(q.Entries, e)
			}
			return q
		},
		func(k *ccChk, v int16, q *kafka.AlterClientQuotasRequest, got ccM) ccM {
			es := []any{}
			for _, e := range q.Entries {
				ens, ops := []any{}, []any{}
				for _, x := range e.Entities {
					ens = append(ens, ccM{"EntityType": x.EntityType, "EntityName": x.EntityName})
				}
				for _, x := range e.Ops {
					ops = append(ops, ccM{"Key": x.Key, "Value": x.Value, "Remove": x.Remove})
				}
				es = append(es, ccM{"Entities": ens, "Ops": ops})
			}
			return ccM{"Entries": es, "ValidateOnly": q.ValidateOnly}
		}, nil,
		func(k *ccChk, v int16, q *kafka.AlterClientQuotasRequest, body ccM, r *kafka.AlterClientQuotasResponse) {
			k.dur("Throttle", r.Throttle, bi(body, "ThrottleTimeMs"))
			rs := ba(body, "Results")
			k.num("Entries#", int64(len(r.Entries)), int64(len(rs)))
			for i := 0; i < len(rs) && i < len(r.Entries); i++ {
				k.code("Entries.Error", r.Entries[i].Error, bi(rs[i], "ErrorCode"))
				ens, g := ba(rs[i], "Entities"), r.Entries[i].Entities
				k.num("Entries.Entities#", int64(len(g)), int64(len(ens)))
				for j := 0; j < len(ens) && j < len(g); j++ {
					k.str("Entries.Entities.EntityType", g[j].EntityType, ccS(ens[j], "EntityType"))
					k.str("Entries.Entities.EntityName", g[j].EntityName, ccS(ens[j], "EntityName"))
				}
			}
		})

	// ---- DescribeUserScramCredentials
	ccDef("DescribeUserScramCredentials", 50, (*kafka.Client).DescribeUserScramCredentials,
		func(t *rapid.T, v int16) *kafka.DescribeUserScramCredentialsRequest {
			q := &kafka.DescribeUserScramCredentialsRequest{}
			for i, n := 0, ccLen(t, "users"); i < n; i++ {
				q.Users = append(q.Users, kafka.UserScramCredentialsUser{Name: ccStr(t, "name")})
			}
			return q
		},
		func(k *ccChk, v int16, q *kafka.DescribeUserScramCredentialsRequest, got ccM) ccM {
			us := []any{}
			for _, u := range q.Users {
				us = append(us, ccM{"Name": u.Name})
			}
			return ccM{"Users": us}
		}, nil,
		func(k *ccChk, v int16, q *kafka.DescribeUserScramCredentialsRequest, body ccM, r *kafka.DescribeUserScramCredentialsResponse) {
			k.dur("Throttle", r.Throttle, bi(body, "ThrottleTimeMs"))
			k.code("Error", r.Error, bi(body, "ErrorCode"))
			rs := ba(body, "Results")
			k.num("Results#", int64(len(r.Results)), int64(len(rs)))
			for i := 0; i < len(rs) && i < len(r.Results); i++ {
				g := r.Results[i]
				k.str("Results.User", g.User, ccS(rs[i], "User"))
				k.code("Results.Error", g.Error, bi(rs[i], "ErrorCode"))
				cs := ba(rs[i], "CredentialInfos")
				k.num("Results.CredentialInfos#", int64(len(g.CredentialInfos)), int64(len(cs)))
				for j := 0; j < len(cs) && j < len(g.CredentialInfos); j++ {
					k.num("Results.CredentialInfos.Mechanism", int64(g.CredentialInfos[j].Mechanism), bi(cs[j], "Mechanism"))
					k.num("Results.CredentialInfos.Iterations", int64(g.CredentialInfos[j].Iterations), bi(cs[j], "Iterations"))
				}
			}
		})

	// ---- AlterUserScramCredentials
	ccDef("AlterUserScramCredentials", 51, (*kafka.Client).AlterUserScramCredentials,
		func(t *rapid.T, v int16) *kafka.AlterUserScramCredentialsRequest {
			q := &kafka.AlterUserScramCredentialsRequest{}
			for i, n := 0, ccLen(t, "deletions"); i < n; i++ {
				q.Deletions = append(q.Deletions, kafka.UserScramCredentialsDeletion{Name: ccStr(t, "name"), Mechanism: kafka.ScramMechanism(rapid.IntRange(0, 2).Draw(t, "mechanism"))})
			}
			for i, n := 0, ccLen(t, "upsertions"); i < n; i++ {
				q.Upsertions = append(q.Upsertions, kafka.UserScramCredentialsUpsertion{Name: ccStr(t, "name"), Mechanism: kafka.ScramMechanism(rapid.IntRange(0, 2).Draw(t, "mechanism")),
					Iterations: ccInt(t, "iterations", 32), Salt: ccBytes(t, "salt"), SaltedPassword: ccBytes(t, "saltedPassword")})
			}
			return q
		},
		func(k *ccChk, v int16, q *kafka.AlterUserScramCredentialsRequest, got ccM) ccM {
			ds, us := []any{}, []any{}
			for _, d := range q.Deletions {
				ds = append(ds, ccM{"Name": d.Name, "Mechanism": int64(d.Mechanism)})
			}
			for _, u := range q.Upsertions {
				us = append(us, ccM{"Name": u.Name, "Mechanism": int64(u.Mechanism), "Iterations": int64(u.Iterations), "Salt": u.Salt, "SaltedPassword": u.SaltedPassword})
			}
			return ccM{"Deletions": ds, "Upsertions": us}
		}, nil,
		func(k *ccChk, v int16, q *kafka.AlterUserScramCredentialsRequest, body ccM, r *kafka.AlterUserScramCredentialsResponse) {
			k.dur("Throttle", r.Throttle, bi(body, "ThrottleTimeMs"))
			rs := ba(body, "Results")
			k.num("Results#", int64(len(r.Results)), int64(len(rs)))
			for i := 0; i < len(rs) && i < len(r.Results); i++ {
				k.str("Results.User", r.Results[i].User, ccS(rs[i], "User"))
				k.code("Results.Error", r.Results[i].Error, bi(rs[i], "ErrorCode"))
			}
		})
}

// ---- ListOffsets, Metadata, ApiVersions, Produce, Fetch

// ccProduce is the recipe of a ProduceRequest (its Records field is a reader, not data).
type ccProduce struct {
	Topic           string            `json:"topic"`
	Partition       int               `json:"partition"`
	Acks            int               `json:"acks"`
	TransactionalID string            `json:"transactional_id"`
	Records         []refcodec.Record `json:"records"`
}

var ccRoutable = []string{"t0", "t1", "t2"} // the topics (3 partitions each) of the scripted metadata

func init() {
	// ---- ListOffsets (the Transport sends one request per partition and timestamp: one is generated)
	ccDef("ListOffsets", 2, (*kafka.Client).ListOffsets,
		func(t *rapid.T, v int16) *kafka.ListOffsetsRequest {
			ts := rapid.OneOf(rapid.SampledFrom([]int64{kafka.FirstOffset, kafka.LastOffset}), rapid.Int64Range(0, 1<<41)).Draw(t, "timestamp")
			return &kafka.ListOffsetsRequest{IsolationLevel: kafka.IsolationLevel(rapid.IntRange(0, 1).Draw(t, "isolation")),
				Topics: map[string][]kafka.OffsetRequest{rapid.SampledFrom(ccRoutable).Draw(t, "topic"): {{Partition: rapid.IntRange(0, 2).Draw(t, "partition"), Timestamp: ts}}}}
		},
		func(k *ccChk, v int16, q *kafka.ListOffsetsRequest, got ccM) ccM {
			topics := []any{}
			for _, name := range ccKeys(q.Topics) {
				ps := []any{}
				for _, r := range q.Topics[name] {
					ps = append(ps, ccM{"Partition": int64(r.Partition), "Timestamp": r.Timestamp})
				}
				topics = append(topics, ccM{"Topic": name, "Partitions": ps})
			}
			return ccM{"IsolationLevel": int64(q.IsolationLevel), "Topics": topics}
		},
		func(t *rapid.T, v int16, q *kafka.ListOffsetsRequest, body ccM) {
			ccUnique(ba(body, "Topics"), "Topic")
			for _, tp := range ba(body, "Topics") {
				ccUniqueInt(ba(tp, "Partitions"), "Partition")
			}
		},
		func(k *ccChk, v int16, q *kafka.ListOffsetsRequest, body ccM, r *kafka.ListOffsetsResponse) {
			k.dur("Throttle", r.Throttle, bi(body, "ThrottleTimeMs"))
			for _, tp := range ba(body, "Topics") {
				for _, p := range ba(tp, "Partitions") {
					var g *kafka.PartitionOffsets
					for i := range r.Topics[ccS(tp, "Topic")] {
						if int64(r.Topics[ccS(tp, "Topic")][i].Partition) == bi(p, "Partition") {
							g = &r.Topics[ccS(tp, "Topic")][i]
						}
					}
					if g == nil {
						k.failf("Topics", "Topics[%q]: no entry for partition %d, which the broker encoded", ccS(tp, "Topic"), bi(p, "Partition"))
						continue
					}
					k.code("Topics.Error", g.Error, bi(p, "ErrorCode"))
					_, inMap := g.Offsets[bi(p, "Offset")]
					if !inMap && g.FirstOffset != bi(p, "Offset") && g.LastOffset != bi(p, "Offset") {
						k.failf("Topics.Offset", "Topics[%q] partition %d: offset %d, which the broker encoded, is neither FirstOffset (%d), LastOffset (%d) nor in Offsets (%v)", ccS(tp, "Topic"), bi(p, "Partition"), bi(p, "Offset"), g.FirstOffset, g.LastOffset, g.Offsets)
					}
				}
			}
		})

	// ---- Metadata: answered from the Transport's cached copy of the broker's response (response half only)
	md := ccDef("Metadata", 3, (*kafka.Client).Metadata,
		func(t *rapid.T, v int16) *kafka.MetadataRequest { return &kafka.MetadataRequest{} },
		nil,
		func(t *rapid.T, v int16, q *kafka.MetadataRequest, body ccM) {
			ccUniqueInt(ba(body, "Brokers"), "NodeID")
			ccUnique(ba(body, "Topics"), "Name")
			for _, tp := range ba(body, "Topics") {
				ccUniqueInt(ba(tp, "Partitions"), "PartitionIndex")
			}
		},
		func(k *ccChk, v int16, q *kafka.MetadataRequest, body ccM, r *kafka.MetadataResponse) {
			k.str("ClusterID", r.ClusterID, ccS(body, "ClusterID"))
			brokers := map[int64]kafka.Broker{}
			bs := ba(body, "Brokers")
			k.num("Brokers#", int64(len(r.Brokers)), int64(len(bs)))
			for _, b := range bs {
				brokers[bi(b, "NodeID")] = kafka.Broker{ID: int(bi(b, "NodeID")), Host: ccS(b, "Host"), Port: int(bi(b, "Port")), Rack: ccS(b, "Rack")}
			}
			for _, g := range r.Brokers {
				if w, ok := brokers[int64(g.ID)]; !ok || w != g {
					k.failf("Brokers", "Brokers: %+v, the broker encoded %+v (present=%v)", g, w, ok)
				}
			}
			if w, ok := brokers[bi(body, "ControllerID")]; ok && v >= 1 {
				k.eq("Controller", r.Controller, w)
			}
			idsOf := func(bs []kafka.Broker) []int {
				var out []int
				for _, b := range bs {
					out = append(out, b.ID)
				}
				return out
			}
			ts := ba(body, "Topics")
			k.num("Topics#", int64(len(r.Topics)), int64(len(ts)))
			for _, w := range ts {
				var g *kafka.Topic
				for i := range r.Topics {
					if r.Topics[i].Name == ccS(w, "Name") {
						g = &r.Topics[i]
					}
				}
				if g == nil {
					k.failf("Topics", "Topics: no entry for %q, which the broker encoded", ccS(w, "Name"))
					continue
				}
				k.eq("Topics.Internal", g.Internal, ccB(w, "IsInternal"))
				k.code("Topics.Error", g.Error, bi(w, "ErrorCode"))
				ps := ba(w, "Partitions")
				k.num("Topics.Partitions#", int64(len(g.Partitions)), int64(len(ps)))
				for _, wp := range ps {
					var gp *kafka.Partition
					for i := range g.Partitions {
						if int64(g.Partitions[i].ID) == bi(wp, "PartitionIndex") {
							gp = &g.Partitions[i]
						}
					}
					if gp == nil {
						k.failf("Topics.Partitions", "Topics[%q].Partitions: no entry for partition %d, which the broker encoded", ccS(w, "Name"), bi(wp, "PartitionIndex"))
						continue
					}
					k.str("Topics.Partitions.Topic", gp.Topic, ccS(w, "Name"))
					k.code("Topics.Partitions.Error", gp.Error, bi(wp, "ErrorCode"))
					if wb, ok := brokers[bi(wp, "LeaderID")]; ok {
						k.eq("Topics.Partitions.Leader", gp.Leader, wb)
					}
					k.ints("Topics.Partitions.Replicas", idsOf(gp.Replicas), ccI64s(wp, "ReplicaNodes"))
					k.ints("Topics.Partitions.Isr", idsOf(gp.Isr), ccI64s(wp, "IsrNodes"))
				}
			}
		})
	md.noReq = true

	// ---- ApiVersions
	ccDef("ApiVersions", 18, (*kafka.Client).ApiVersions,
		func(t *rapid.T, v int16) *kafka.ApiVersionsRequest { return &kafka.ApiVersionsRequest{} },
		func(k *ccChk, v int16, q *kafka.ApiVersionsRequest, got ccM) ccM { return ccM{} }, nil,
		func(k *ccChk, v int16, q *kafka.ApiVersionsRequest, body ccM, r *kafka.ApiVersionsResponse) {
			k.code("Error", r.Error, bi(body, "ErrorCode"))
			ks := ba(body, "ApiKeys")
			k.num("ApiKeys#", int64(len(r.ApiKeys)), int64(len(ks)))
			for i := 0; i < len(ks) && i < len(r.ApiKeys); i++ {
				k.num("ApiKeys.ApiKey", int64(r.ApiKeys[i].ApiKey), bi(ks[i], "ApiKey"))
				k.num("ApiKeys.MinVersion", int64(r.ApiKeys[i].MinVersion), bi(ks[i], "MinVersion"))
				k.num("ApiKeys.MaxVersion", int64(r.ApiKeys[i].MaxVersion), bi(ks[i], "MaxVersion"))
			}
		})

	// ---- Produce (acks 1 / -1: with acks 0 a broker sends no response)
	ccDef("Produce", 0,
		func(cl *kafka.Client, ctx context.Context, q *ccProduce) (*kafka.ProduceResponse, error) {
			return cl.Produce(ctx, &kafka.ProduceRequest{Topic: q.Topic, Partition: q.Partition, RequiredAcks: kafka.RequiredAcks(q.Acks), TransactionalID: q.TransactionalID,
				Records: kafka.NewRecordReader(libtypes.ToLibRecords(q.Records)...)})
		},
		func(t *rapid.T, v int16) *ccProduce {
			magic := int8(2)
			if v < 3 {
				magic = 1
			}
			q := &ccProduce{Topic: rapid.SampledFrom(ccRoutable).Draw(t, "topic"), Partition: rapid.IntRange(0, 2).Draw(t, "partition"), Acks: rapid.SampledFrom([]int{1, -1}).Draw(t, "acks"),
				Records: refcodec.GenRecords(t, rapid.IntRange(1, 4).Draw(t, "nRecords"), 0, magic, false, false)}
			if ccBool(t, "transactional") {
				q.TransactionalID = ccName(t, "transactionalID")
			}
			return q
		},
		func(k *ccChk, v int16, q *ccProduce, got ccM) ccM {
			ccTimeoutPositive(k, got, "Timeout")
			if ts := ba(got, "Topics"); len(ts) == 1 && len(ba(ts[0], "Partitions")) == 1 {
				rs, _ := ba(ts[0], "Partitions")[0]["RecordSet"].(*refcodec.RecordSet)
				var recs []refcodec.Record
				if rs != nil {
					recs = rs.AllRecords()
				}
				if d := refcodec.DiffRecords("Topics[0].Partitions[0].RecordSet", q.Records, recs, true); d != "" {
					k.failf("Topics.Partitions.RecordSet", "the records of the request vs the records on the wire: %s", d)
				}
			}
			return ccM{"TransactionalID": q.TransactionalID, "Acks": int64(q.Acks), "Topics": []any{ccM{"Topic": q.Topic, "Partitions": []any{ccM{"Partition": int64(q.Partition)}}}}}
		},
		func(t *rapid.T, v int16, q *ccProduce, body ccM) {
			ts := ba(body, "Topics")
			if len(ts) == 0 || len(ba(ts[0], "Partitions")) == 0 {
				body["Topics"] = []any{ccM{"Topic": q.Topic, "Partitions": []any{ccM{"Partition": int64(q.Partition), "ErrorCode": int64(0), "BaseOffset": int64(rapid.IntRange(0, 1000).Draw(t, "baseOffset")),
					"LogAppendTime": int64(-1), "LogStartOffset": int64(0), "RecordErrors": []any{}, "ErrorMessage": nil}}}}
				return
			}
			ccUniqueInt(ba(ba(ts[0], "Partitions")[0], "RecordErrors"), "BatchIndex")
		},
		func(k *ccChk, v int16, q *ccProduce, body ccM, r *kafka.ProduceResponse) {
			p := ba(ba(body, "Topics")[0], "Partitions")[0]
			k.dur("Throttle", r.Throttle, bi(body, "ThrottleTimeMs"))
			k.code("Error", r.Error, bi(p, "ErrorCode"))
			k.num("BaseOffset", r.BaseOffset, bi(p, "BaseOffset"))
			k.num("LogStartOffset", r.LogStartOffset, bi(p, "LogStartOffset"))
			if ms := bi(p, "LogAppendTime"); ms > 0 {
				k.num("LogAppendTime", r.LogAppendTime.UnixMilli(), ms)
			}
			es := ba(p, "RecordErrors")
			k.num("RecordErrors#", int64(len(r.RecordErrors)), int64(len(es)))
			for _, e := range es {
				g, ok := r.RecordErrors[int(bi(e, "BatchIndex"))]
				if !ok || g == nil || g.Error() != ccS(e, "BatchIndexErrorMessage") {
					k.failf("RecordErrors", "RecordErrors[%d]: %v (present=%v), the broker encoded %q", bi(e, "BatchIndex"), g, ok, ccS(e, "BatchIndexErrorMessage"))
				}
			}
		})

	// ---- Fetch (explicit offsets: the symbolic ones make the client send a ListOffsets request first)
	ccDef("Fetch", 1, (*kafka.Client).Fetch,
		func(t *rapid.T, v int16) *kafka.FetchRequest {
			return &kafka.FetchRequest{Topic: rapid.SampledFrom(ccRoutable).Draw(t, "topic"), Partition: rapid.IntRange(0, 2).Draw(t, "partition"), Offset: rapid.Int64Range(0, 1<<40).Draw(t, "offset"),
				MinBytes: int64(rapid.IntRange(0, math.MaxInt32).Draw(t, "minBytes")), MaxBytes: int64(rapid.IntRange(1, math.MaxInt32).Draw(t, "maxBytes")),
				MaxWait: time.Duration(rapid.IntRange(0, 2000).Draw(t, "maxWaitMs")) * time.Millisecond, IsolationLevel: kafka.IsolationLevel(rapid.IntRange(0, 1).Draw(t, "isolation"))}
		},
		func(k *ccChk, v int16, q *kafka.FetchRequest, got ccM) ccM {
			ccTimeoutPositive(k, got, "MaxWaitTime")
			p := ccM{"Partition": int64(q.Partition), "FetchOffset": q.Offset}
			if v < 3 {
				p["PartitionMaxBytes"] = q.MaxBytes // the only size limit of the wire format below v3
			}
			return ccM{"MinBytes": q.MinBytes, "MaxBytes": q.MaxBytes, "IsolationLevel": int64(q.IsolationLevel), "Topics": []any{ccM{"Topic": q.Topic, "Partitions": []any{p}}}}
		},
		func(t *rapid.T, v int16, q *kafka.FetchRequest, body ccM) {
			ts := ba(body, "Topics")
			if len(ts) == 0 || len(ba(ts[0], "Partitions")) == 0 {
				body["Topics"] = []any{ccM{"Topic": q.Topic, "Partitions": []any{ccM{"Partition": int64(q.Partition), "ErrorCode": int64(0), "HighWatermark": int64(rapid.IntRange(0, 1000).Draw(t, "hwm")),
					"LastStableOffset": int64(-1), "LogStartOffset": int64(0), "AbortedTransactions": nil, "PreferredReadReplica": int64(-1), "RecordSet": nil}}}}
			}
		},
		func(k *ccChk, v int16, q *kafka.FetchRequest, body ccM, r *kafka.FetchResponse) {
			tp := ba(body, "Topics")[0]
			p := ba(tp, "Partitions")[0]
			k.dur("Throttle", r.Throttle, bi(body, "ThrottleTimeMs"))
			k.str("Topic", r.Topic, ccS(tp, "Topic"))
			k.num("Partition", int64(r.Partition), bi(p, "Partition"))
			k.num("HighWatermark", r.HighWatermark, bi(p, "HighWatermark"))
			k.num("LastStableOffset", r.LastStableOffset, bi(p, "LastStableOffset"))
			k.num("LogStartOffset", r.LogStartOffset, bi(p, "LogStartOffset"))
			switch {
			case bi(p, "ErrorCode") != 0:
				k.code("Error", r.Error, bi(p, "ErrorCode"))
			default:
				k.code("Error", r.Error, bi(body, "ErrorCode"))
			}
			var want []refcodec.Record
			if rs, _ := p["RecordSet"].(*refcodec.RecordSet); rs != nil {
				want = rs.AllRecords()
			}
			got, err := libtypes.ReadAllRecords(r.Records)
			if err != nil {
				k.failf("Records", "reading Records: %v", err)
			} else if d := refcodec.DiffRecords("Records", want, got, true); d != "" {
				k.failf("Records", "the records the broker encoded vs the records read: %s", d)
			}
		})
}
