// Package c18 decides property C18: with a SASL mechanism configured nothing
// but ApiVersions, SaslHandshake and SaslAuthenticate (or raw authentication
// tokens) is written to a connection before the broker accepted the exchange;
// a rejected / failed / interrupted exchange makes dialling fail and closes
// the connection; PLAIN and SCRAM-SHA-256/512 complete against the fake's
// hand-written RFC 4616 / RFC 5802 server exactly when the credentials are right.
package c18

import (
	"context"
	"fmt"
	"net"
	"os"
	"sort"
	"strings"
	"testing"
	"time"

	kafka "github.com/segmentio/kafka-go"
	"github.com/segmentio/kafka-go/sasl"
	"github.com/segmentio/kafka-go/sasl/plain"
	"github.com/segmentio/kafka-go/sasl/scram"
	"pgregory.net/rapid"

	"verif/fakecluster"
	"verif/internal/ev"
	"verif/memnet"
)

func TestMain(m *testing.M) { ev.Main(m, "C18") }

func TestReplay(t *testing.T) { ev.RunReplay(t) }

func init() { ev.Register("auth", run) }

// ---------------------------------------------------------------------------
// case

// cred is a user name or password: Raw is what the application hands to the
// mechanism, Prep its RFC 4013 SASLprep form (known by construction, never
// computed with a stringprep library).  PLAIN sends Raw, SCRAM sends Prep.
type cred struct {
	Raw  string `json:"raw"`
	Prep string `json:"prep"`
}

type authCase struct {
	Mech         string `json:"mech"`          // PLAIN | SCRAM-SHA-256 | SCRAM-SHA-512
	HandshakeMax int16  `json:"handshake_max"` // 0: broker advertises SaslHandshake v0 only (raw tokens); 1: v0-v1 (framed)
	AuthMax      int16  `json:"auth_max"`      // highest SaslAuthenticate version advertised (0 or 1)
	Entry        string `json:"entry"`         // dial | dialleader | client | writer
	Fault        string `json:"fault"`
	Code         int16  `json:"code,omitempty"` // error code for handshake-code / auth-codeN
	User         cred   `json:"user"`           // the account the broker knows (absent from the broker for unknown-user*)
	Pass         cred   `json:"pass"`
	WrongPass    cred   `json:"wrong_pass"` // what the client presents under wrong-password
	Decoys       int    `json:"decoys"`     // other accounts on the broker
	Iterations   int    `json:"iterations"`
	LowIter      int    `json:"low_iter,omitempty"` // low-iterations: what the broker announces
	NullMsg      bool   `json:"null_msg,omitempty"` // failed rounds are answered with a null error message
	// HideHandshake (Transport entries): the brokers do not list SaslHandshake in their ApiVersions answer (they serve it
	// all the same): a configured mechanism is used whatever the broker lists
	HideHandshake bool `json:"hide_handshake,omitempty"`
	// NamedPort (entries dial, dialleader): the address names its port as a service ("b1.fake:kafka"), which dial functions
	// and resolvers accept.  Whether such a dial succeeds is the library's choice; what reaches the broker on it is not.
	NamedPort bool  `json:"named_port,omitempty"`
	First     int64 `json:"first"` // log start of partition 1
	Last      int64 `json:"last"`  // log end of partition 1
}

const topic = "t"

var mechs = []string{"PLAIN", "SCRAM-SHA-256", "SCRAM-SHA-512"}
var entries = []string{"dial", "dialleader", "client", "writer", "newwriter", "readerseek", "groupreader"}

// every fault, with the step at which the exchange fails (0 = handshake, n = authenticate round n)
var faults = []struct {
	name      string
	step      int
	scramOnly bool
	framed    bool // only meaningful with framed SaslAuthenticate (an error code needs a response header)
	rawOnly   bool // only meaningful with raw authentication bytes (handshake v0)
}{
	{"none", -1, false, false, false},
	{"unsupported-mech", 0, false, false, false},
	{"handshake-code", 0, false, false, false},
	{"close-handshake", 0, false, false, false},
	{"wrong-password", 1, false, false, false}, // SCRAM: detected with the proof, round 2
	{"unknown-user", 1, false, false, false},   // SCRAM: rejected with the proof, round 2
	{"unknown-user-early", 1, true, false, false},
	{"close-auth1", 1, false, false, false},
	{"cut-raw-auth1", 1, false, false, true}, // the raw answer of round 1 ends after a part of the bytes it announced
	{"auth-code1", 1, false, true, false},
	{"malformed-server-first", 1, true, false, false},
	{"empty-server-first", 1, true, false, false}, // no bytes and no error code where the mechanism expects the server's message
	{"bad-nonce", 1, true, false, false},
	{"low-iterations", 1, true, false, false},
	{"close-auth2", 2, true, false, false},
	{"auth-code2", 2, true, true, false},
	{"wrong-server-sig", 2, true, false, false},
	{"malformed-server-final", 2, true, false, false},
	{"empty-server-final", 2, true, false, false},
	{"server-final-error", 2, true, false, false},
}

func failStep(c authCase) int {
	for _, f := range faults {
		if f.name == c.Fault {
			if strings.HasPrefix(c.Mech, "SCRAM") && (c.Fault == "wrong-password" || c.Fault == "unknown-user") {
				return 2
			}
			if n := legsOf(c.Mech); n > 0 && (c.Fault == "wrong-password" || c.Fault == "unknown-user") {
				return n
			}
			return f.step
		}
	}
	return -1
}

type combo struct {
	Mech  string
	HS    int16
	Entry string
	Fault string
}

// product enumerates mechanism x handshake versions x entry point x fault.
func product() []combo {
	var out []combo
	for _, m := range mechs {
		for hs := int16(0); hs <= 1; hs++ {
			for _, f := range faults {
				if f.scramOnly && m == "PLAIN" {
					continue
				}
				if f.framed && hs == 0 {
					continue
				}
				if f.rawOnly && hs != 0 {
					continue
				}
				for _, e := range entries {
					out = append(out, combo{m, hs, e, f.name})
				}
			}
		}
	}
	return out
}

// ---------------------------------------------------------------------------
// running one case

type result struct {
	dialErr   error  // Dial/DialLeader, or the whole Client/Writer call
	followErr error  // the real request after a successful dial (Dialer entries)
	wrong     string // the real request was answered, but not with what the model holds
}

// legsMech is a user-written sasl.Mechanism (the interface is public) of a configurable number of round trips.
type legsMech struct {
	user, pass string
	legs       int
}

func (m legsMech) Name() string { return "LEGS" }

func (m legsMech) Start(ctx context.Context) (sasl.StateMachine, []byte, error) {
	return &legsSession{m: m, sent: 1}, []byte(fmt.Sprintf("leg-1\x00%s\x00%s", m.user, m.pass)), nil
}

type legsSession struct {
	m    legsMech
	sent int
}

func (s *legsSession) Next(ctx context.Context, challenge []byte) (bool, []byte, error) {
	if s.sent >= s.m.legs {
		return true, nil, nil // the server accepted the last leg (a refusal arrives as an error code, not here)
	}
	if string(challenge) != fmt.Sprintf("more-%d", s.sent) {
		return false, nil, fmt.Errorf("legs: unexpected challenge %q after leg %d", challenge, s.sent)
	}
	s.sent++
	return false, []byte(fmt.Sprintf("leg-%d\x00%s\x00%s", s.sent, s.m.user, s.m.pass)), nil
}

func legsOf(mech string) int {
	n := 0
	fmt.Sscanf(mech, "LEGS-%d", &n)
	return n
}

func mechanism(c authCase, user, pass string) (sasl.Mechanism, error) {
	if n := legsOf(c.Mech); n > 0 {
		return legsMech{user: user, pass: pass, legs: n}, nil
	}
	switch c.Mech {
	case "PLAIN":
		return plain.Mechanism{Username: user, Password: pass}, nil
	case "SCRAM-SHA-256":
		return scram.Mechanism(scram.SHA256, user, pass)
	default:
		return scram.Mechanism(scram.SHA512, user, pass)
	}
}

// serverForm is what the broker stores: PLAIN clients send the raw string,
// SCRAM clients its SASLprep form.
func serverForm(c authCase, x cred) string {
	if c.Mech == "PLAIN" || legsOf(c.Mech) > 0 {
		return x.Raw
	}
	return x.Prep
}

const callTimeout = 20 * time.Second

func run(tb ev.TB, c authCase) {
	ev.InFlight("auth", c)
	nw := memnet.New()
	cl := fakecluster.New(nw, 2)
	defer cl.Close()
	cl.CreateTopic(topic, 2) // partition 0 led by broker 1, partition 1 by broker 2
	cl.SetLogRange(topic, 1, c.First, c.Last)
	cl.SetVersions(0, 17, 0, c.HandshakeMax)
	if c.HideHandshake && family(c.Entry) == "transport" && c.HandshakeMax == 0 {
		cl.HideFromApiVersions(17)
	}
	cl.SetVersions(0, 36, 0, c.AuthMax)

	cfg := &fakecluster.SASLConfig{Mechanisms: append([]string{"LEGS"}, mechs...), Users: map[string]string{}, Iterations: c.Iterations, Legs: legsOf(c.Mech)}
	user, pass := serverForm(c, c.User), serverForm(c, c.Pass)
	cfg.Users[user] = pass
	for i := 0; i < c.Decoys; i++ {
		cfg.Users[fmt.Sprintf("%s~decoy%d", user, i)] = pass + fmt.Sprint(i)
	}
	clientUser, clientPass := c.User.Raw, c.Pass.Raw
	switch c.Fault {
	case "none":
	case "unsupported-mech":
		cfg.Mechanisms = nil
		for _, m := range mechs {
			if m != c.Mech {
				cfg.Mechanisms = append(cfg.Mechanisms, m)
			}
		}
	case "handshake-code":
		cfg.HandshakeError = c.Code
	case "close-handshake":
		cfg.CloseAtHandshake = true
	case "wrong-password":
		clientPass = c.WrongPass.Raw
		// the wrong password is the right one of another account
		cfg.Users[user+"~other"] = serverForm(c, c.WrongPass)
	case "unknown-user", "unknown-user-early":
		delete(cfg.Users, user)
		cfg.Users[user+"~other"] = pass
		cfg.EarlyUnknownUser = c.Fault == "unknown-user-early"
	case "cut-raw-auth1":
		cfg.TruncateRawAtStep, cfg.TruncateRawAnnounce = 1, 4+int(c.Code)%60
		cfg.TruncateRawSend = int(c.Last) % cfg.TruncateRawAnnounce
	case "close-auth1":
		cfg.CloseAtStep = 1
	case "close-auth2":
		cfg.CloseAtStep = 2
	case "auth-code1":
		cfg.AuthError, cfg.AuthErrorStep = c.Code, 1
	case "auth-code2":
		cfg.AuthError, cfg.AuthErrorStep = c.Code, 2
	case "malformed-server-first":
		cfg.MalformServerFirst = true
	case "bad-nonce":
		cfg.BadNonce = true
	case "low-iterations":
		cfg.ServerIterations = c.LowIter
	case "wrong-server-sig":
		cfg.WrongServerSig = true
	case "malformed-server-final":
		cfg.MalformServerFinal = true
	case "empty-server-first":
		cfg.EmptyServerFirst = true
	case "empty-server-final":
		cfg.EmptyServerFinal = true
	case "server-final-error":
		cfg.ServerFinalError = true
	default:
		tb.Fatalf("harness: unknown fault %q", c.Fault)
	}
	cfg.NullErrorMessages = c.NullMsg
	if c.Entry == "client" {
		cfg.StepDelay = 2 * time.Millisecond // the two brokers' exchanges interleave
	}
	cl.EnableSASL(cfg)

	mech, err := mechanism(c, clientUser, clientPass)
	if err != nil {
		tb.Fatalf("harness: generated credentials are not accepted by the mechanism constructor: %v (case %+v)", err, c)
	}

	// ---- the call
	var cleanup []func()
	resc := make(chan result, 1)
	go func() { resc <- call(c, nw, cl, mech, &cleanup) }()
	var res result
	select {
	case res = <-resc:
	case <-time.After(callTimeout + 10*time.Second):
		ev.Inconclusive("call-did-not-return")
		return
	}
	if isTimeout(res.dialErr) || isTimeout(res.followErr) {
		ev.Inconclusive("call-timeout")
		for _, f := range cleanup {
			f()
		}
		return
	}

	expectFailure := c.Fault != "none"
	failed := res.dialErr != nil
	if c.Fault == "low-iterations" {
		// refusing a low iteration count is the SCRAM client's policy, not part of the statement: either outcome is consistent
		expectFailure = failed
		if failed {
			ev.Label("low_iter_refused")
		} else {
			ev.Label("low_iter_accepted")
		}
	}

	// ---- (2) a failed exchange closes the connection(s), without help from the application
	closedImmediately := false
	if failed && (expectFailure || c.NamedPort) {
		late, ok := waitAllClientClosed(nw, 2*time.Second, 8*time.Second)
		closedImmediately = ok && !late
		switch {
		case !ok:
			ev.Fail(tb, "auth", "c18/connection-not-closed/"+family(c.Entry), c, "%s: %s failed with %v but connection(s) %v are still open on the client side 8 s later",
				describe(c), c.Entry, res.dialErr, openConns(nw))
			return
		case late:
			ev.Inconclusive("closed-late")
		}
	}
	for _, f := range cleanup {
		f()
	}
	if !waitQuiesced(nw, 8*time.Second) {
		ev.Inconclusive("connections-not-quiesced")
		return
	}

	if os.Getenv("C18_DUMP") != "" {
		tb.Logf("%s\n-> dialErr=%v followErr=%v wrong=%q\n%s", describe(c), res.dialErr, res.followErr, res.wrong, dump(cl))
	}

	// ---- (4) framing follows the handshake version; nothing malformed
	if v := cl.Violations(); len(v) != 0 {
		ev.Fail(tb, "auth", "c18/protocol-violation/"+family(c.Entry), c, "%s: the broker received malformed or wrongly framed bytes: %s\n%s", describe(c), v[0], dump(cl))
		return
	}

	// ---- (1), (2), (4) per connection, from the journal
	okSeq := map[int]int64{}
	for _, e := range cl.AuthEvents() {
		if e.Verdict == "ok" {
			if _, dup := okSeq[e.ConnID]; !dup {
				okSeq[e.ConnID] = e.ReqSeq
			}
		}
	}
	byConn := map[int][]*fakecluster.Exchange{}
	var connIDs []int
	for _, e := range cl.Journal() {
		if _, seen := byConn[e.ConnID]; !seen {
			connIDs = append(connIDs, e.ConnID)
		}
		byConn[e.ConnID] = append(byConn[e.ConnID], e)
	}
	sort.Ints(connIDs)
	realRequests := 0
	for _, id := range connIDs {
		exs := byConn[id]
		sort.Slice(exs, func(i, j int) bool { return exs[i].Seq < exs[j].Seq })
		ok, authed := okSeq[id]
		hsVersion := int16(-1)
		authRounds := 0
		failedAt := int64(-1)
		for _, e := range exs {
			if failedAt >= 0 {
				ev.Fail(tb, "auth", "c18/request-after-failed-step/"+family(c.Entry), c, "%s: connection %d: %s v%d (seq %d) arrived after the exchange had failed at seq %d\n%s",
					describe(c), id, e.ApiName, e.Version, e.Seq, failedAt, dump(cl))
				return
			}
			isAuthAPI := e.ApiKey == 18 || e.ApiKey == 17 || e.ApiKey == 36 || e.ApiKey == -36
			if e.Tag == "before-auth" || (!isAuthAPI && (!authed || e.Seq <= ok)) {
				ev.Fail(tb, "auth", "c18/request-before-authenticated/"+family(c.Entry), c, "%s: connection %d: %s v%d (seq %d) was written before the broker accepted the authentication exchange\n%s",
					describe(c), id, e.ApiName, e.Version, e.Seq, dump(cl))
				return
			}
			if !isAuthAPI {
				realRequests++
			}
			code := int64(0)
			if e.RespBody != nil {
				code, _ = e.RespBody["ErrorCode"].(int64)
			}
			switch e.ApiKey {
			case 17:
				hsVersion = e.Version
				if code != 0 || e.Outcome == "dropped-before" {
					failedAt = e.Seq
				}
			case 36, -36:
				authRounds++
				if (e.ApiKey == 36) != (hsVersion == 1) {
					ev.Fail(tb, "auth", "c18/framing/"+family(c.Entry), c, "%s: connection %d: after a v%d handshake the client sent %s (seq %d)\n%s", describe(c), id, hsVersion, e.ApiName, e.Seq, dump(cl))
					return
				}
				if code != 0 || e.Outcome == "dropped-before" || e.Outcome == "closed" || e.Outcome == "cut" {
					failedAt = e.Seq
				}
				// a response the client must refuse
				switch c.Fault {
				case "malformed-server-first", "bad-nonce", "empty-server-first":
					if authRounds == 1 {
						failedAt = e.Seq
					}
				case "low-iterations":
					if authRounds == 1 && failed {
						failedAt = e.Seq
					}
				case "wrong-server-sig", "malformed-server-final", "server-final-error", "empty-server-final":
					if authRounds == 2 {
						failedAt = e.Seq
					}
				}
			}
		}
	}
	for _, cs := range nw.Conns() {
		if cs.Dead && cs.ClientWroteAfterCut > 0 {
			ev.Fail(tb, "auth", "c18/request-after-failed-step/"+family(c.Entry), c, "%s: connection %d: the client wrote %d bytes after the broker had ended the exchange\n%s",
				describe(c), cs.ID, cs.ClientWroteAfterCut, dump(cl))
			return
		}
	}

	// ---- (3) completes <=> credentials right and server signature verifies
	if c.NamedPort && failed && !expectFailure && len(cl.AuthEvents()) == 0 {
		// the library refused the address before any exchange: nothing was sent (rules 1, 2, 4 above), nothing to complete
		ev.Case(fmt.Sprintf("%+v", c), false, "named_port_refused", "entry_"+c.Entry, "mech_"+c.Mech)
		return
	}
	switch {
	case expectFailure && !failed:
		ev.Fail(tb, "auth", "c18/no-error/"+c.Fault+"/"+family(c.Entry), c, "%s: the exchange was made to fail (%s at step %d) but %s returned no error\n%s",
			describe(c), c.Fault, failStep(c), c.Entry, dump(cl))
		return
	case !expectFailure && failed:
		ev.Fail(tb, "auth", "c18/right-credentials-rejected/"+c.Mech+"/"+family(c.Entry), c, "%s: right credentials, fault-free broker, but %s failed: %v\n%s",
			describe(c), c.Entry, res.dialErr, dump(cl))
		return
	}

	// ---- (5) the real request after a completed exchange is answered correctly
	if !failed {
		if res.followErr != nil {
			ev.Fail(tb, "auth", "c18/real-request-failed/"+family(c.Entry), c, "%s: authenticated, but the following request failed: %v\n%s", describe(c), res.followErr, dump(cl))
			return
		}
		if res.wrong != "" {
			ev.Fail(tb, "auth", "c18/real-request-wrong/"+family(c.Entry), c, "%s: authenticated, but the following request was answered wrongly: %s\n%s", describe(c), res.wrong, dump(cl))
			return
		}
		if realRequests == 0 {
			tb.Fatalf("harness: %s succeeded but the broker saw no real request\n%s", describe(c), dump(cl))
		}
	}

	// ---- evidence
	framing := "raw_tokens_v0"
	if c.HandshakeMax == 1 {
		framing = "framed_v1"
	}
	labels := []string{"mech_" + c.Mech, framing, "entry_" + c.Entry, "fault_" + c.Fault, fmt.Sprintf("fail_step_%d", failStep(c)),
		fmt.Sprintf("%s/%s/step%d", c.Mech, framing, failStep(c))}
	labels = append(labels, credLabels(c)...)
	if failed && closedImmediately {
		labels = append(labels, "failed_and_closed")
	}
	if !failed {
		labels = append(labels, "authenticated_then_real_request")
	}
	nontrivial := (!failed && realRequests > 0) || (failed && failStep(c) >= 1)
	ev.Case(fmt.Sprintf("%+v", c), nontrivial, labels...)
	ev.Count("connections", int64(len(connIDs)))
	ev.Sample(c)
}

func family(entry string) string {
	if entry == "dial" || entry == "dialleader" || entry == "readerseek" || entry == "groupreader" {
		return "dialer"
	}
	return "transport"
}

func describe(c authCase) string {
	return fmt.Sprintf("%s, handshake v0-v%d, SaslAuthenticate v0-v%d, entry %s, fault %s, user %q, password %q", c.Mech, c.HandshakeMax, c.AuthMax, c.Entry, c.Fault, c.User.Raw, c.Pass.Raw)
}

func isTimeout(err error) bool {
	if err == nil {
		return false
	}
	s := err.Error()
	return strings.Contains(s, "deadline exceeded") || strings.Contains(s, "i/o timeout")
}

// call exercises one entry point; everything the application would have to
// close itself is appended to cleanup.
func call(c authCase, nw *memnet.Network, cl *fakecluster.Cluster, mech sasl.Mechanism, cleanup *[]func()) (res result) {
	ctx, cancel := context.WithTimeout(context.Background(), callTimeout)
	defer cancel()
	bootstrap := "b1.fake:9092"
	dialFn := nw.Dial
	if c.NamedPort {
		bootstrap = "b1.fake:kafka"
		dialFn = func(ctx context.Context, network, address string) (net.Conn, error) {
			return nw.Dial(ctx, network, strings.Replace(address, ":kafka", ":9092", 1))
		}
	}
	switch c.Entry {
	case "dial":
		d := &kafka.Dialer{DialFunc: dialFn, SASLMechanism: mech, Timeout: callTimeout, ClientID: "c18"}
		conn, err := d.DialContext(ctx, "tcp", bootstrap)
		if err != nil {
			res.dialErr = err
			return
		}
		*cleanup = append(*cleanup, func() { conn.Close() })
		conn.SetDeadline(time.Now().Add(callTimeout))
		ps, err := conn.ReadPartitions(topic)
		if err != nil {
			res.followErr = err
			return
		}
		sort.Slice(ps, func(i, j int) bool { return ps[i].ID < ps[j].ID })
		if len(ps) != 2 || ps[0].ID != 0 || ps[1].ID != 1 || ps[0].Leader.ID != 1 || ps[1].Leader.ID != 2 || ps[0].Leader.Host != "b1.fake" || ps[1].Leader.Host != "b2.fake" || ps[0].Topic != topic {
			res.wrong = fmt.Sprintf("ReadPartitions returned %+v; the topic has partitions 0 (leader 1, b1.fake) and 1 (leader 2, b2.fake)", ps)
		}
	case "dialleader":
		d := &kafka.Dialer{DialFunc: dialFn, SASLMechanism: mech, Timeout: callTimeout, ClientID: "c18"}
		conn, err := d.DialLeader(ctx, "tcp", bootstrap, topic, 1)
		if err != nil {
			res.dialErr = err
			return
		}
		*cleanup = append(*cleanup, func() { conn.Close() })
		conn.SetDeadline(time.Now().Add(callTimeout))
		first, last, err := conn.ReadOffsets()
		if err != nil {
			res.followErr = err
			return
		}
		if first != c.First || last != c.Last {
			res.wrong = fmt.Sprintf("ReadOffsets returned (%d,%d); partition 1 spans [%d,%d)", first, last, c.First, c.Last)
		}
	case "client":
		tr := &kafka.Transport{Dial: nw.Dial, SASL: mech, MetadataTTL: time.Hour, DialTimeout: callTimeout, ClientID: "c18"}
		*cleanup = append(*cleanup, tr.CloseIdleConnections)
		client := &kafka.Client{Addr: kafka.TCP(bootstrap), Transport: tr}
		// A second goroutine uses the same Transport for the other partition at the same time: its leader is the other broker,
		// so two connections authenticate at about the same time with the one mechanism value the Transport holds.  (The
		// call below asks for both partitions as well; the Transport dials for the parts of one call one after the other.)
		otherDone := make(chan error, 1)
		go func() {
			r, err := client.ListOffsets(ctx, &kafka.ListOffsetsRequest{Topics: map[string][]kafka.OffsetRequest{topic: {kafka.LastOffsetOf(0)}}})
			if err == nil {
				for _, x := range r.Topics[topic] {
					if x.Error != nil {
						err = x.Error
					}
				}
			}
			otherDone <- err
		}()
		defer func() {
			if oerr := <-otherDone; oerr != nil && res.dialErr == nil {
				res.dialErr = fmt.Errorf("concurrent ListOffsets for partition 0 (the other broker): %w", oerr)
			}
		}()
		r, err := client.ListOffsets(ctx, &kafka.ListOffsetsRequest{Topics: map[string][]kafka.OffsetRequest{topic: {kafka.FirstOffsetOf(1), kafka.LastOffsetOf(1), kafka.LastOffsetOf(0)}}})
		if err != nil {
			res.dialErr = err
			return
		}
		var po []kafka.PartitionOffsets
		for _, x := range r.Topics[topic] {
			if x.Partition == 1 {
				po = append(po, x)
			} else if x.Error != nil {
				// the sub-request to the other broker failed: with the right credentials that is a failed authentication
				res.dialErr = fmt.Errorf("ListOffsets for partition %d (the other broker): %w", x.Partition, x.Error)
				return
			}
		}
		if len(po) != 1 || po[0].Error != nil || po[0].FirstOffset != c.First || po[0].LastOffset != c.Last {
			if len(po) == 1 && po[0].Error != nil {
				res.dialErr = fmt.Errorf("ListOffsets for partition 1: %w", po[0].Error)
				return
			}
			res.wrong = fmt.Sprintf("ListOffsets returned %+v; partition 1 spans [%d,%d)", po, c.First, c.Last)
		}
	case "readerseek":
		// a Reader configured with the mechanism in its Dialer; SetOffsetAt opens a connection of its own.  Whatever the
		// library dials with instead of the configured Dialer ends up at the package's DefaultDialer, which is pointed at
		// the same in-memory network here (without credentials, as it is by default): the broker sees that traffic too.
		saved := kafka.DefaultDialer
		kafka.DefaultDialer = &kafka.Dialer{DialFunc: nw.Dial, Timeout: callTimeout, ClientID: "c18-default"}
		defer func() { kafka.DefaultDialer = saved }()
		r := kafka.NewReader(kafka.ReaderConfig{Brokers: []string{bootstrap}, Topic: topic, Partition: 1, MinBytes: 1, MaxBytes: 1 << 20, MaxWait: 200 * time.Millisecond,
			Dialer: &kafka.Dialer{DialFunc: nw.Dial, SASLMechanism: mech, Timeout: callTimeout, ClientID: "c18"}})
		*cleanup = append(*cleanup, func() { r.Close() })
		if err := r.SetOffsetAt(ctx, time.UnixMilli(1)); err != nil {
			res.dialErr = err
			return
		}
	case "groupreader":
		// a Reader in consumer-group mode with the mechanism in its Dialer: the connections to the coordinator (FindCoordinator,
		// JoinGroup, SyncGroup, OffsetFetch, Heartbeat) are opened by the group machinery, the fetch connections by the
		// reader itself; the DefaultDialer is redirected as for "readerseek".  The call counts as completed when the member has
		// fetched its committed offsets; with a fault in the exchange the reader keeps retrying in the background, so the
		// call gives up (and closes the reader) once the broker has seen an exchange fail.
		saved := kafka.DefaultDialer
		kafka.DefaultDialer = &kafka.Dialer{DialFunc: nw.Dial, Timeout: callTimeout, ClientID: "c18-default"}
		defer func() { kafka.DefaultDialer = saved }()
		r := kafka.NewReader(kafka.ReaderConfig{Brokers: []string{bootstrap}, GroupID: "g-c18", Topic: topic, MinBytes: 1, MaxBytes: 1 << 20, MaxWait: 50 * time.Millisecond,
			HeartbeatInterval: 50 * time.Millisecond, SessionTimeout: 2 * time.Second, RebalanceTimeout: 2 * time.Second, JoinGroupBackoff: 5 * time.Second,
			ReadBackoffMin: time.Millisecond, ReadBackoffMax: 5 * time.Millisecond, WatchPartitionChanges: false,
			Dialer: &kafka.Dialer{DialFunc: nw.Dial, SASLMechanism: mech, Timeout: callTimeout, ClientID: "c18"}})
		closed := false
		*cleanup = append(*cleanup, func() {
			if !closed {
				r.Close()
			}
		})
		start, failedSince := time.Now(), time.Time{}
		for {
			joined := false
			for _, e := range cl.Journal() {
				if e.ApiKey == 9 && e.Tag != "before-auth" {
					joined = true
				}
			}
			if joined {
				return
			}
			if failedSince.IsZero() {
				for _, e := range cl.AuthEvents() {
					if e.Verdict != "ok" {
						failedSince = time.Now()
					}
				}
				for _, cs := range nw.Conns() {
					if cs.Dead || cs.ClientClosed {
						failedSince = time.Now()
					}
				}
			}
			if (!failedSince.IsZero() && time.Since(failedSince) > 30*time.Millisecond) || time.Since(start) > 4*time.Second {
				res.dialErr = fmt.Errorf("the group member had not fetched its offsets %v after NewReader", time.Since(start).Round(time.Millisecond))
				closed = true
				r.Close()
				return
			}
			time.Sleep(2 * time.Millisecond)
		}
	case "newwriter":
		// the pre-0.4 constructor: the SASL mechanism travels in WriterConfig.Dialer and NewWriter converts the Dialer into
		// a Transport of its own (whose dial function is then pointed at the in-memory network)
		w := kafka.NewWriter(kafka.WriterConfig{Brokers: []string{bootstrap}, Topic: topic, Dialer: &kafka.Dialer{SASLMechanism: mech, Timeout: callTimeout, ClientID: "c18"},
			BatchTimeout: time.Millisecond, MaxAttempts: 1, RequiredAcks: int(kafka.RequireAll), Balancer: kafka.BalancerFunc(func(kafka.Message, ...int) int { return 1 })})
		tr, ok := w.Transport.(*kafka.Transport)
		if !ok {
			res.dialErr = fmt.Errorf("harness: NewWriter did not build a *kafka.Transport")
			return
		}
		tr.Dial = nw.Dial
		*cleanup = append(*cleanup, func() { w.Close() })
		err := w.WriteMessages(ctx, kafka.Message{Key: []byte("k-" + c.User.Raw), Value: []byte("v-" + c.Pass.Raw)})
		if err != nil {
			res.dialErr = err
			return
		}
		var stored []string
		for _, r := range cl.Records(topic, 1) {
			stored = append(stored, fmt.Sprintf("%d:%q=%q", r.Offset, r.Key, r.Value))
		}
		want := fmt.Sprintf("%d:%q=%q", c.Last, "k-"+c.User.Raw, "v-"+c.Pass.Raw)
		if len(stored) != 1 || stored[0] != want {
			res.wrong = fmt.Sprintf("partition 1 holds %v after WriteMessages returned nil; expected exactly [%s]", stored, want)
		}
	case "writer":
		tr := &kafka.Transport{Dial: nw.Dial, SASL: mech, MetadataTTL: time.Hour, DialTimeout: callTimeout, ClientID: "c18"}
		*cleanup = append(*cleanup, tr.CloseIdleConnections)
		w := &kafka.Writer{Addr: kafka.TCP(bootstrap), Topic: topic, Transport: tr, BatchTimeout: time.Millisecond, MaxAttempts: 1, RequiredAcks: kafka.RequireAll,
			Balancer: kafka.BalancerFunc(func(kafka.Message, ...int) int { return 1 })}
		*cleanup = append(*cleanup, func() { w.Close() })
		err := w.WriteMessages(ctx, kafka.Message{Key: []byte("k-" + c.User.Raw), Value: []byte("v-" + c.Pass.Raw)})
		if err != nil {
			res.dialErr = err
			return
		}
		var stored []string
		for _, r := range cl.Records(topic, 1) {
			stored = append(stored, fmt.Sprintf("%d:%q=%q", r.Offset, r.Key, r.Value))
		}
		want := fmt.Sprintf("%d:%q=%q", c.Last, "k-"+c.User.Raw, "v-"+c.Pass.Raw)
		if len(stored) != 1 || stored[0] != want {
			res.wrong = fmt.Sprintf("partition 1 holds %v after WriteMessages returned nil; expected exactly [%s]", stored, want)
		}
	}
	return
}

func openConns(nw *memnet.Network) []int {
	var ids []int
	for _, cs := range nw.Conns() {
		if !cs.ClientClosed {
			ids = append(ids, cs.ID)
		}
	}
	return ids
}

// waitAllClientClosed waits until the client closed every connection it
// dialled.  late: it took longer than soft; ok=false: not within hard.
func waitAllClientClosed(nw *memnet.Network, soft, hard time.Duration) (late, ok bool) {
	start := time.Now()
	for {
		if len(openConns(nw)) == 0 {
			return time.Since(start) > soft, true
		}
		if time.Since(start) > hard {
			return true, false
		}
		time.Sleep(200 * time.Microsecond)
	}
}

// waitQuiesced waits until both ends of every connection are closed, so that
// the journal is complete.
func waitQuiesced(nw *memnet.Network, max time.Duration) bool {
	start := time.Now()
	for {
		open := 0
		for _, cs := range nw.Conns() {
			if !cs.ClientClosed || !cs.ServerClosed {
				open++
			}
		}
		if open == 0 {
			return true
		}
		if time.Since(start) > max {
			return false
		}
		time.Sleep(200 * time.Microsecond)
	}
}

func dump(cl *fakecluster.Cluster) string {
	var sb strings.Builder
	sb.WriteString("journal:\n")
	for _, e := range cl.Journal() {
		code := any(nil)
		if e.RespBody != nil {
			code = e.RespBody["ErrorCode"]
		}
		fmt.Fprintf(&sb, "  seq %d conn %d broker %d %s v%d tag=%q outcome=%s code=%v\n", e.Seq, e.ConnID, e.BrokerID, e.ApiName, e.Version, e.Tag, e.Outcome, code)
	}
	sb.WriteString("auth events:\n")
	for _, a := range cl.AuthEvents() {
		fmt.Fprintf(&sb, "  conn %d %s user %q step %d raw=%v verdict=%s (request seq %d)\n", a.ConnID, a.Mech, a.User, a.Step, a.Raw, a.Verdict, a.ReqSeq)
	}
	return sb.String()
}

func credLabels(c authCase) []string {
	var l []string
	both := c.User.Raw + c.Pass.Raw
	if c.User.Raw != c.User.Prep || c.Pass.Raw != c.Pass.Prep {
		l = append(l, "cred_needs_saslprep")
	}
	if strings.Contains(c.User.Raw, ",") {
		l = append(l, "user_has_comma")
	}
	if strings.Contains(c.User.Raw, "=") {
		l = append(l, "user_has_equals")
	}
	if strings.Contains(c.User.Raw, "=2C") || strings.Contains(c.User.Raw, "=3D") {
		l = append(l, "user_has_escape_lookalike")
	}
	if strings.ContainsAny(c.Pass.Raw, ",=") {
		l = append(l, "pass_has_comma_or_equals")
	}
	if strings.Contains(both, " ") {
		l = append(l, "cred_has_space")
	}
	return l
}

// ---------------------------------------------------------------------------
// credentials

// RFC 4013 cases with a known prepared form (B.1 mapped to nothing, C.1.2
// non-ASCII space mapped to U+0020, NFKC compatibility mappings).
var prepTable = []cred{
	{"\u00AA", "a"},  // FEMININE ORDINAL INDICATOR -> "a" (NFKC)
	{"\u2168", "IX"}, // ROMAN NUMERAL NINE -> "IX" (NFKC)
	{"\u00AD", ""},   // SOFT HYPHEN: mapped to nothing
	{"\u00A0", " "},  // NO-BREAK SPACE -> SPACE
}

func ascii(s string) cred { return cred{s, s} }

func concat(parts ...cred) cred {
	var c cred
	for _, p := range parts {
		c.Raw += p.Raw
		c.Prep += p.Prep
	}
	return c
}

// fixed credential pairs for the enumerated product (user, password)
var fixedCreds = [][2]cred{
	{ascii("alice"), ascii("secret")},
	{ascii("user,one"), ascii("pa=ss,word")},
	{ascii("a=b"), ascii("=,=")},
	{ascii("=2C"), ascii("=3D")},
	{ascii("x=3D2C,y"), ascii("p w")},
	{concat(ascii("user"), prepTable[0]), concat(ascii("pw"), prepTable[1])}, // RFC 4013 examples 2 and 4
	{concat(ascii("I"), prepTable[2], ascii("X")), concat(ascii("a"), prepTable[3], ascii("b"))}, // example 1, NBSP
	{concat(prepTable[1], ascii(",")), concat(prepTable[0], prepTable[2], ascii("=z"))},
	{ascii("User Name"), ascii(`"quoted"\back`)},
}

func genCred(t *rapid.T, what string) cred {
	switch rapid.IntRange(0, 5).Draw(t, what+"Kind") {
	case 0:
		return ascii(rapid.StringMatching(`[A-Za-z0-9._@-]{1,14}`).Draw(t, what))
	case 1: // printable ASCII with ',' and '=' boosted
		n := rapid.IntRange(1, 16).Draw(t, what+"Len")
		var sb strings.Builder
		for i := 0; i < n; i++ {
			switch rapid.IntRange(0, 5).Draw(t, "ck") {
			case 0:
				sb.WriteByte(',')
			case 1:
				sb.WriteByte('=')
			default:
				sb.WriteByte(byte(rapid.IntRange(0x20, 0x7e).Draw(t, "ch")))
			}
		}
		return ascii(sb.String())
	case 2: // look-alikes of the SCRAM escapes
		segs := rapid.SliceOfN(rapid.SampledFrom([]string{"=2C", "=3D", "=", ",", "2C", "3D", "=3D2C", "a", "=2c", "==", ",,"}), 1, 5).Draw(t, what+"Esc")
		return ascii(strings.Join(segs, ""))
	default: // RFC 4013 table entries mixed with ASCII
		n := rapid.IntRange(1, 5).Draw(t, what+"Segs")
		var c cred
		for i := 0; i < n; i++ {
			if rapid.Bool().Draw(t, "tbl") {
				c = concat(c, prepTable[rapid.IntRange(0, len(prepTable)-1).Draw(t, "tblIdx")])
			} else {
				c = concat(c, ascii(rapid.StringMatching(`[A-Za-z0-9,= ]{1,4}`).Draw(t, "seg")))
			}
		}
		// at least one character must survive preparation
		return concat(ascii(rapid.StringMatching(`[a-z]`).Draw(t, "lead")), c)
	}
}

// wrongOf derives a password whose raw and prepared forms both differ from p.
func wrongOf(p cred, how int) cred {
	switch how % 4 {
	case 0:
		return concat(p, ascii("x"))
	case 1:
		return concat(ascii(" "), p)
	case 2:
		return concat(p, ascii(","))
	default: // change the case of the first letter of an all-ASCII password
		if p.Raw == p.Prep {
			for i := 0; i < len(p.Raw); i++ {
				if ch := p.Raw[i]; (ch >= 'a' && ch <= 'z') || (ch >= 'A' && ch <= 'Z') {
					return ascii(p.Raw[:i] + string(rune(ch^0x20)) + p.Raw[i+1:])
				}
			}
		}
		return concat(p, ascii("="))
	}
}

func codeFor(fault string, k int) int16 {
	switch fault {
	case "handshake-code":
		return []int16{33, 34, 35}[k%3] // UNSUPPORTED_SASL_MECHANISM, ILLEGAL_SASL_STATE, UNSUPPORTED_VERSION
	case "auth-code1", "auth-code2":
		return []int16{58, 34, 35}[k%3] // SASL_AUTHENTICATION_FAILED, ILLEGAL_SASL_STATE, UNSUPPORTED_VERSION
	}
	return 0
}

// ---------------------------------------------------------------------------
// units

// TestProduct enumerates mechanism x advertised handshake versions x entry
// point x fault with a fixed table of credentials (rotated by the seed).
func TestProduct(t *testing.T) {
	p := product()
	seed := int(ev.Seed() % 1000)
	if seed < 0 {
		seed = -seed
	}
	rounds := ev.Scale(1, len(fixedCreds)) // thorough: every point with every fixed credential pair
	for r := 0; r < rounds; r++ {
		for i, co := range p {
			k := i + seed + r
			cr := fixedCreds[k%len(fixedCreds)]
			c := authCase{Mech: co.Mech, HandshakeMax: co.HS, AuthMax: int16(k % 2), Entry: co.Entry, Fault: co.Fault, Code: codeFor(co.Fault, k),
				User: cr[0], Pass: cr[1], WrongPass: wrongOf(cr[1], k), Decoys: k % 3, Iterations: 4096, First: int64(k % 7), Last: int64(k%7 + k%11), NullMsg: (k/2)%2 == 1}
			if co.Fault == "low-iterations" {
				c.LowIter = []int{4095, 1}[k%2]
			}
			run(t, c)
		}
	}
	ev.Count("product_size", int64(len(p)))
}

// TestGenerated draws a point of the product and generated credentials.
func TestGenerated(t *testing.T) {
	p := product()
	rapid.Check(t, func(t *rapid.T) {
		co := combo{Mech: rapid.SampledFrom(mechs).Draw(t, "mech"), HS: int16(rapid.IntRange(0, 1).Draw(t, "handshakeMax")), Entry: rapid.SampledFrom(entries).Draw(t, "entry")}
		var applicable []string
		for _, q := range p {
			if q.Mech == co.Mech && q.HS == co.HS && q.Entry == co.Entry {
				applicable = append(applicable, q.Fault)
			}
		}
		// 2 in 5 cases exercise a completed exchange or a credential failure (where the generated credentials matter most),
		// the others any fault of the product
		switch rapid.IntRange(0, 4).Draw(t, "class") {
		case 0:
			co.Fault = "none"
		case 1:
			co.Fault = rapid.SampledFrom([]string{"wrong-password", "unknown-user"}).Draw(t, "credFault")
		default:
			co.Fault = rapid.SampledFrom(applicable).Draw(t, "fault")
		}
		k := rapid.IntRange(0, 1<<20).Draw(t, "k")
		c := authCase{Mech: co.Mech, HandshakeMax: co.HS, AuthMax: int16(rapid.IntRange(0, 1).Draw(t, "authMax")), Entry: co.Entry, Fault: co.Fault, Code: codeFor(co.Fault, k),
			User: genCred(t, "user"), Pass: genCred(t, "pass"), Decoys: rapid.IntRange(0, 3).Draw(t, "decoys"),
			Iterations: rapid.SampledFrom([]int{4096, 4096, 4096, 4097, 6000}).Draw(t, "iterations")}
		c.WrongPass = wrongOf(c.Pass, rapid.IntRange(0, 3).Draw(t, "wrongHow"))
		c.NullMsg = rapid.Bool().Draw(t, "nullMsg")
		c.HideHandshake = family(co.Entry) == "transport" && co.HS == 0 && rapid.IntRange(0, 2).Draw(t, "hideHandshake") == 0
		if co.Fault == "low-iterations" {
			c.LowIter = rapid.SampledFrom([]int{4095, 1, 1000}).Draw(t, "lowIter")
		}
		c.First = int64(rapid.IntRange(0, 50).Draw(t, "first"))
		c.Last = c.First + int64(rapid.IntRange(0, 50).Draw(t, "span"))
		c.NamedPort = (co.Entry == "dial" || co.Entry == "dialleader") && rapid.IntRange(0, 4).Draw(t, "namedPort") == 0
		run(t, c)
	})
}


// TestLegs: a user-written mechanism of 1-12 round trips (PLAIN needs one, SCRAM two; the interface allows any number)
// through every entry point, with right and wrong credentials: the exchange is complete when the mechanism says so, not
// after some number of steps.
func TestLegs(t *testing.T) {
	rapid.Check(t, func(t *rapid.T) {
		c := authCase{Mech: fmt.Sprintf("LEGS-%d", rapid.SampledFrom([]int{1, 2, 3, 7, 8, 9, 10, 12}).Draw(t, "legs")), HandshakeMax: int16(rapid.IntRange(0, 1).Draw(t, "handshakeMax")),
			AuthMax: int16(rapid.IntRange(0, 1).Draw(t, "authMax")), Entry: rapid.SampledFrom(entries).Draw(t, "entry"),
			Fault: rapid.SampledFrom([]string{"none", "none", "wrong-password", "unknown-user"}).Draw(t, "fault"),
			User:  genCred(t, "user"), Pass: genCred(t, "pass"), Decoys: rapid.IntRange(0, 2).Draw(t, "decoys"), Iterations: 4096}
		c.WrongPass = wrongOf(c.Pass, rapid.IntRange(0, 3).Draw(t, "wrongHow"))
		c.First = int64(rapid.IntRange(0, 50).Draw(t, "first"))
		c.Last = c.First + int64(rapid.IntRange(0, 50).Draw(t, "span"))
		run(t, c)
	})
}
