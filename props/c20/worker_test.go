package c20

// Isolation runner: the bad outcomes of C20 include death of the process
// ("fatal error: runtime: out of memory", stack overflow), so every decode of a
// hostile frame runs in a worker process.  The test binary re-executes itself
// (-test.run ^TestWorker$ with VERIF_WORKER=1); the worker reads one JSON case
// per line on stdin and answers one JSON line per case on fd 3.

import (
	"bufio"
	"bytes"
	"encoding/hex"
	"encoding/json"
	"fmt"
	"io"
	"os"
	"os/exec"
	"runtime"
	"runtime/debug"
	"strings"
	"sync"
	"syscall"
	"testing"
	"time"

	"github.com/segmentio/kafka-go/protocol"
	"github.com/segmentio/kafka-go/protocol/fetch"
	"github.com/segmentio/kafka-go/protocol/saslauthenticate"

	"verif/internal/libtypes"
)

const (
	allocSlack   = 1 << 20 // bytes a decode may allocate whatever the input
	allocPerByte = 1024    // plus this many bytes per byte supplied
	workerASLim  = 3 << 30 // RLIMIT_AS of a worker
	workerStack  = 64 << 20
)

// allocBound is the statement's "in proportion to the bytes actually received".
func allocBound(supplied int) uint64 { return allocSlack + allocPerByte*uint64(supplied) }

// wreq is one unit of work for a worker.
type wreq struct {
	Seq        int    `json:"seq"`
	Entry      string `json:"entry"` // read | sasl-raw | unmarshal | transport | transport-sasl0 | transport-sasl1
	Key        int16  `json:"key"`
	Version    int16  `json:"version"`
	StreamHex  string `json:"stream_hex"`
	WatchdogMs int    `json:"watchdog_ms"`
}

// wres is the worker's answer.
type wres struct {
	Seq      int    `json:"seq"`
	Outcome  string `json:"outcome"` // decoded | error | panic | timeout | death (parent only) | unserved (transport: the frame was never asked for)
	Msg      string `json:"msg,omitempty"`
	Alloc    uint64 `json:"alloc"`
	Consumed int    `json:"consumed"`
	Micros   int64  `json:"micros"`
	Decomp   int32  `json:"decomp,omitempty"`    // codec code when a decompressor ran during the decode
	InDecomp bool   `json:"in_decomp,omitempty"` // parent only: the dead worker's crash report shows decompressor frames
	Stderr   string `json:"stderr,omitempty"`    // parent only: tail of the dead worker's stderr
}

// decodeResult is what one in-process decode reports (shared with the fuzz target).
type decodeResult struct {
	Outcome  string
	Msg      string
	Consumed int
}

// decodeRead feeds exactly stream (then EOF) to protocol.ReadResponse through a
// bufio.Reader, as protocol.Conn does; a decoded Fetch response has its records
// drained, as Client.Fetch callers do.
func decodeRead(key, ver int16, stream []byte) (res decodeResult) {
	src := bytes.NewReader(stream)
	br := bufio.NewReader(src)
	defer func() {
		res.Consumed = len(stream) - src.Len() - br.Buffered()
		if p := recover(); p != nil {
			res.Outcome = "panic"
			res.Msg = fmt.Sprintf("%v\n%s", p, trimStack(debug.Stack()))
		}
	}()
	_, msg, err := protocol.ReadResponse(br, protocol.ApiKey(key), ver)
	if err != nil {
		return decodeResult{Outcome: "error", Msg: err.Error()}
	}
	if fr, ok := msg.(*fetch.Response); ok {
		for i := range fr.Topics {
			for j := range fr.Topics[i].Partitions {
				if rr := fr.Topics[i].Partitions[j].RecordSet.Records; rr != nil {
					libtypes.ReadAllRecords(rr)
				}
			}
		}
	}
	return decodeResult{Outcome: "decoded"}
}

type discardRW struct {
	r io.Reader
}

func (d *discardRW) Read(b []byte) (int, error)  { return d.r.Read(b) }
func (d *discardRW) Write(b []byte) (int, error) { return len(b), nil }

// decodeSaslRaw runs the raw (unframed) SASL token exchange of the v0 handshake
// path against stream.
func decodeSaslRaw(stream []byte) (res decodeResult) {
	src := bytes.NewReader(stream)
	defer func() {
		res.Consumed = len(stream) - src.Len()
		if p := recover(); p != nil {
			res.Outcome = "panic"
			res.Msg = fmt.Sprintf("%v\n%s", p, trimStack(debug.Stack()))
		}
	}()
	req := &saslauthenticate.Request{AuthBytes: []byte("\x00u\x00p")}
	_, err := req.RawExchange(&discardRW{r: src})
	if err != nil {
		return decodeResult{Outcome: "error", Msg: err.Error()}
	}
	return decodeResult{Outcome: "decoded"}
}

func trimStack(b []byte) string {
	s := string(b)
	if len(s) > 2500 {
		s = s[:2500] + "..."
	}
	return s
}

func decodeEntry(entry string, key, ver int16, stream []byte, budget time.Duration) decodeResult {
	switch entry {
	case "read":
		return decodeRead(key, ver, stream)
	case "sasl-raw":
		return decodeSaslRaw(stream)
	case "unmarshal":
		return decodeUnmarshal(key, stream)
	case "describegroups":
		return decodeDescribeGroups(key, stream, budget)
	case "client":
		return decodeClient(key, ver, stream, budget)
	case "client-raw":
		return decodeTransportWith("transport", key, ver, stream, budget, rawProduceCall)
	case "transport", "transport-sasl0", "transport-sasl1":
		return decodeTransport(entry, key, ver, stream, budget)
	}
	return decodeResult{Outcome: "error", Msg: "harness: unknown entry " + entry}
}

// TestWorker is the worker process' main loop; it is a no-op unless
// VERIF_WORKER=1.
func TestWorker(t *testing.T) {
	if os.Getenv("VERIF_WORKER") != "1" {
		t.Skip("not a worker")
	}
	lim := syscall.Rlimit{Cur: workerASLim, Max: workerASLim}
	if err := syscall.Setrlimit(syscall.RLIMIT_AS, &lim); err != nil {
		fmt.Fprintf(os.Stderr, "worker: setrlimit: %v\n", err)
		os.Exit(4)
	}
	debug.SetMaxStack(workerStack)
	instrumentCodecs()
	out := os.NewFile(3, "results")
	if out == nil {
		fmt.Fprintln(os.Stderr, "worker: fd 3 missing")
		os.Exit(4)
	}
	enc := json.NewEncoder(out)
	in := bufio.NewReaderSize(os.Stdin, 1<<20)
	var m0, m1 runtime.MemStats
	// The collector is off while cases run (a decode that balloons must hit the
	// address-space limit, not be rescued by a collection); it runs between
	// cases, every gcEvery cases or as soon as the heap holds more than gcHeap.
	const gcEvery, gcHeap = 32, 48 << 20
	sinceGC := 0
	debug.SetGCPercent(-1)
	for {
		line, err := in.ReadBytes('\n')
		if len(line) == 0 && err != nil {
			return
		}
		var rq wreq
		if json.Unmarshal(line, &rq) != nil {
			fmt.Fprintf(os.Stderr, "worker: bad request line\n")
			os.Exit(4)
		}
		stream, _ := hex.DecodeString(rq.StreamHex)
		wd := time.Duration(rq.WatchdogMs) * time.Millisecond
		if wd <= 0 {
			wd = 2 * time.Second
		}
		done := make(chan decodeResult, 1)
		timer := time.NewTimer(wd)
		decompressUsed.Store(0)
		runtime.ReadMemStats(&m0)
		t0 := time.Now()
		go func() {
			// panics of the decoding goroutine itself are recovered inside decodeEntry
			done <- decodeEntry(rq.Entry, rq.Key, rq.Version, stream, wd)
		}()
		var r decodeResult
		select {
		case r = <-done:
		case <-timer.C:
			enc.Encode(wres{Seq: rq.Seq, Outcome: "timeout", Msg: fmt.Sprintf("no return within %v", wd), Micros: time.Since(t0).Microseconds(), Decomp: decompressUsed.Load()})
			os.Exit(3) // the decoding goroutine cannot be stopped
		}
		el := time.Since(t0)
		runtime.ReadMemStats(&m1)
		timer.Stop()
		if sinceGC++; sinceGC >= gcEvery || m1.HeapAlloc > gcHeap || isTransportEntry(rq.Entry) {
			runtime.GC()
			sinceGC = 0
		}
		enc.Encode(wres{Seq: rq.Seq, Outcome: r.Outcome, Msg: r.Msg, Alloc: m1.TotalAlloc - m0.TotalAlloc, Consumed: r.Consumed, Micros: el.Microseconds(), Decomp: decompressUsed.Load()})
		if err != nil {
			return
		}
	}
}

// ---------------------------------------------------------------------------
// parent side

// tailBuf keeps the head and the tail of what a worker prints: a Go crash
// report starts with its cause ("fatal error: ...") and may go on for many
// goroutines.
type tailBuf struct {
	mu   sync.Mutex
	head []byte
	tail []byte
}

func (t *tailBuf) Write(p []byte) (int, error) {
	t.mu.Lock()
	if room := 8192 - len(t.head); room > 0 {
		k := len(p)
		if k > room {
			k = room
		}
		t.head = append(t.head, p[:k]...)
		t.tail = append(t.tail, p[k:]...)
	} else {
		t.tail = append(t.tail, p...)
	}
	if len(t.tail) > 16384 {
		t.tail = append([]byte{}, t.tail[len(t.tail)-8192:]...)
	}
	t.mu.Unlock()
	return len(p), nil
}

func (t *tailBuf) String() string {
	t.mu.Lock()
	defer t.mu.Unlock()
	if len(t.tail) == 0 {
		return string(t.head)
	}
	return string(t.head) + "\n[...]\n" + string(t.tail)
}

type wproc struct {
	cmd    *exec.Cmd
	stdin  io.WriteCloser
	res    chan wres // closed when the result pipe reaches EOF
	stderr *tailBuf
	served int
}

func startWorker() (*wproc, error) {
	pr, pw, err := os.Pipe()
	if err != nil {
		return nil, err
	}
	cmd := exec.Command(os.Args[0], "-test.run", "^TestWorker$", "-test.timeout", "60m")
	var env []string
	for _, e := range os.Environ() {
		// the worker must neither write evidence nor replay
		if strings.HasPrefix(e, "VERIF_EVIDENCE_OUT=") || strings.HasPrefix(e, "VERIF_REPLAY=") || strings.HasPrefix(e, "GOMAXPROCS=") {
			continue
		}
		env = append(env, e)
	}
	cmd.Env = append(env, "VERIF_WORKER=1", "GOMAXPROCS=2")
	cmd.ExtraFiles = []*os.File{pw}
	tb := &tailBuf{}
	cmd.Stdout = tb
	cmd.Stderr = tb
	stdin, err := cmd.StdinPipe()
	if err != nil {
		return nil, err
	}
	if err := cmd.Start(); err != nil {
		pr.Close()
		pw.Close()
		return nil, err
	}
	pw.Close()
	w := &wproc{cmd: cmd, stdin: stdin, res: make(chan wres, 4), stderr: tb}
	go func() {
		defer close(w.res)
		defer pr.Close()
		rd := bufio.NewReaderSize(pr, 1<<16)
		for {
			line, err := rd.ReadBytes('\n')
			if len(line) > 0 {
				var r wres
				if json.Unmarshal(line, &r) == nil {
					w.res <- r
				}
			}
			if err != nil {
				return
			}
		}
	}()
	return w, nil
}

func (w *wproc) stop() {
	w.stdin.Close()
	done := make(chan struct{})
	go func() { w.cmd.Wait(); close(done) }()
	select {
	case <-done:
	case <-time.After(3 * time.Second):
		w.cmd.Process.Kill()
		<-done
	}
}

func (w *wproc) kill() string {
	w.cmd.Process.Kill()
	err := w.cmd.Wait()
	if err != nil {
		return err.Error()
	}
	return "exit 0"
}

// pool keeps n workers; Do runs one request on a free worker and attributes a
// death of the worker to the request in flight.
type pool struct {
	free     chan *slot
	mu       sync.Mutex
	deaths   int64
	restarts int64
	starts   int64
	seq      int
}

type slot struct{ w *wproc }

func newPool(n int) *pool {
	p := &pool{free: make(chan *slot, n)}
	for i := 0; i < n; i++ {
		p.free <- &slot{}
	}
	return p
}

const recycleAfter = 20000 // cases served by one worker process before it is replaced

// Do runs rq in a worker.  infra is non-nil only when no worker can be started.
func (p *pool) Do(rq wreq) (wres, error) {
	s := <-p.free
	defer func() { p.free <- s }()
	if s.w != nil && s.w.served >= recycleAfter {
		s.w.stop()
		s.w = nil
	}
	if s.w == nil {
		w, err := startWorker()
		if err != nil {
			return wres{}, fmt.Errorf("cannot start worker: %w", err)
		}
		s.w = w
		p.mu.Lock()
		p.starts++
		p.mu.Unlock()
	}
	p.mu.Lock()
	p.seq++
	rq.Seq = p.seq
	p.mu.Unlock()
	line, _ := json.Marshal(rq)
	line = append(line, '\n')
	w := s.w
	w.served++
	wd := time.Duration(rq.WatchdogMs)*time.Millisecond + 20*time.Second
	if _, err := w.stdin.Write(line); err != nil {
		// the worker is already gone (died after its previous answer?)
		st := w.kill()
		s.w = nil
		p.mu.Lock()
		p.restarts++
		p.mu.Unlock()
		return wres{Seq: rq.Seq, Outcome: "death", Msg: "worker not accepting input: " + st, Stderr: w.stderr.String()}, nil
	}
	timer := time.NewTimer(wd)
	defer timer.Stop()
	select {
	case r, ok := <-w.res:
		if ok && r.Seq == rq.Seq {
			if r.Outcome == "timeout" { // the worker exits after reporting a timeout
				w.kill()
				s.w = nil
				p.mu.Lock()
				p.restarts++
				p.mu.Unlock()
			}
			return r, nil
		}
		// EOF on the result pipe (or a garbled answer): the worker died
		st := w.kill()
		s.w = nil
		p.mu.Lock()
		p.deaths++
		p.restarts++
		p.mu.Unlock()
		full := w.stderr.String()
		return wres{Seq: rq.Seq, Outcome: "death", Msg: st, Stderr: lastLines(full, 30), InDecomp: inDecompressor(full)}, nil
	case <-timer.C:
		st := w.kill()
		s.w = nil
		p.mu.Lock()
		p.restarts++
		p.mu.Unlock()
		return wres{Seq: rq.Seq, Outcome: "timeout", Msg: "worker silent past its own watchdog, killed: " + st, Stderr: lastLines(w.stderr.String(), 30)}, nil
	}
}

func (p *pool) Close() {
	for i := 0; i < cap(p.free); i++ {
		s := <-p.free
		if s.w != nil {
			s.w.stop()
		}
	}
}

func (p *pool) stats() (starts, deaths, restarts int64) {
	p.mu.Lock()
	defer p.mu.Unlock()
	return p.starts, p.deaths, p.restarts
}

func lastLines(s string, n int) string {
	lines := strings.Split(strings.TrimRight(s, "\n"), "\n")
	// keep the head of a Go fatal error report: it starts at "fatal error:" / "runtime:"
	for i, l := range lines {
		if strings.HasPrefix(l, "fatal error:") || strings.HasPrefix(l, "runtime: goroutine stack exceeds") || strings.HasPrefix(l, "panic:") {
			if i > 2 {
				lines = lines[i-2:]
			}
			break
		}
	}
	if len(lines) > n {
		lines = lines[:n]
	}
	return strings.Join(lines, "\n")
}

// inDecompressor reports whether a stack trace (panic message or crash report)
// runs through a decompressor: the library's compress packages or the format
// libraries behind them.
func inDecompressor(trace string) bool {
	for _, m := range []string{"kafka-go/compress/", "klauspost/compress/", "pierrec/lz4", "compress/gzip", "compress/flate", "golang/snappy"} {
		if strings.Contains(trace, m) {
			return true
		}
	}
	return false
}

// deathClass names why a worker died from what it printed.
func deathClass(r wres) string {
	s := r.Stderr + r.Msg
	switch {
	case strings.Contains(s, "out of memory") || strings.Contains(s, "cannot allocate memory"):
		return "oom"
	case strings.Contains(s, "stack exceeds") || strings.Contains(s, "stack overflow"):
		return "stack"
	case strings.Contains(s, "signal: killed"):
		return "killed"
	case strings.Contains(s, "fatal error:"):
		return "fatal"
	case strings.Contains(s, "panic:"):
		return "panic" // a panic in a goroutine of the library (Transport) takes the process down
	}
	return "exit"
}
