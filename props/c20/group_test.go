package c20

// Client.JoinGroup and Client.SyncGroup decode the member metadata / assignment
// bytes of the responses with protocol.Unmarshal (consumer protocol v1): the
// string, bytes and array lengths nested in those BYTES fields come from the
// network as well.

import (
	"fmt"
	"os"
	"runtime/debug"
	"testing"
	"time"

	"github.com/segmentio/kafka-go/protocol"
	"github.com/segmentio/kafka-go/protocol/consumer"

	"verif/internal/ev"
	"verif/refcodec"
)

const (
	keySubscription int16 = -11 // consumer.Subscription (JoinGroup member metadata)
	keyAssignment   int16 = -14 // consumer.Assignment (SyncGroup assignment)
)

func decodeUnmarshal(key int16, data []byte) (res decodeResult) {
	defer func() {
		if p := recover(); p != nil {
			res.Outcome = "panic"
			res.Msg = fmt.Sprintf("%v\n%s", p, trimStack(debug.Stack()))
		}
	}()
	var err error
	switch key {
	case keySubscription:
		err = protocol.Unmarshal(data, consumer.MaxVersionSupported, &consumer.Subscription{})
	case keyAssignment:
		err = protocol.Unmarshal(data, consumer.MaxVersionSupported, &consumer.Assignment{})
	default:
		return decodeResult{Outcome: "error", Msg: "harness: unknown unmarshal key"}
	}
	if err != nil {
		return decodeResult{Outcome: "error", Msg: err.Error(), Consumed: len(data)}
	}
	return decodeResult{Outcome: "decoded", Consumed: len(data)}
}

type gwriter struct {
	refcodec.Writer
}

func (w *gwriter) count(path string, n int) {
	w.Fields = append(w.Fields, refcodec.LenField{Path: path, Kind: "array", Off: len(w.B), Width: 4, Value: int64(n)})
	w.Int32(int32(n))
}

func (w *gwriter) str(path, s string) {
	w.Fields = append(w.Fields, refcodec.LenField{Path: path, Kind: "string", Off: len(w.B), Width: 2, Value: int64(len(s))})
	w.Int16(int16(len(s)))
	w.Raw([]byte(s))
}

func (w *gwriter) bytes(path string, b []byte) {
	n := len(b)
	if b == nil {
		n = -1
	}
	w.Fields = append(w.Fields, refcodec.LenField{Path: path, Kind: "bytes", Off: len(w.B), Width: 4, Value: int64(n)})
	w.Int32(int32(n))
	w.Raw(b)
}

func (w *gwriter) topicPartitions(path string, nTopics, nParts int) {
	w.count(path, nTopics)
	for i := 0; i < nTopics; i++ {
		w.str(fmt.Sprintf("%s.[%d].Topic", path, i), fmt.Sprintf("topic-%d", i))
		w.count(fmt.Sprintf("%s.[%d].Partitions", path, i), nParts)
		for p := 0; p < nParts; p++ {
			w.Int32(int32(p))
		}
	}
}

// groupEntries: protocol.Unmarshal as Client.JoinGroup / Client.SyncGroup call it, and Client.DescribeGroups, which decodes
// the same values inside its response with readers of its own.
var groupEntries = []string{"unmarshal", "describegroups"}

// groupFrames builds consumer protocol v1 values: small ones and ones whose
// arrays exceed the decoder's 512-element preallocation.
func groupFrames() []*corpusFrame {
	var out []*corpusFrame
	for _, big := range []bool{false, true} {
		nT, nP := 3, 4
		variant := "rich"
		if big {
			nT, nP, variant = 2, 600, "big"
		}
		w := &gwriter{}
		w.Int16(1)
		w.count("Topics", nT)
		for i := 0; i < nT; i++ {
			w.str(fmt.Sprintf("Topics.[%d]", i), fmt.Sprintf("topic-%d", i))
		}
		w.bytes("UserData", []byte("user-data"))
		w.topicPartitions("OwnedPartitions", nT, nP)
		out = append(out, &corpusFrame{API: &refcodec.API{Key: keySubscription, Name: "ConsumerSubscription"}, Ver: 1, Variant: variant, Frame: w.B, Fields: w.Fields})

		w = &gwriter{}
		w.Int16(1)
		w.topicPartitions("AssignedPartitions", nT, nP)
		w.bytes("UserData", nil)
		out = append(out, &corpusFrame{API: &refcodec.API{Key: keyAssignment, Name: "ConsumerAssignment"}, Ver: 1, Variant: variant, Frame: w.B, Fields: w.Fields})
	}
	return out
}

// TestGroupMetadata mutates every length field of consumer-protocol values as
// Client.JoinGroup / Client.SyncGroup hand them to protocol.Unmarshal.
func TestGroupMetadata(t *testing.T) {
	if os.Getenv("VERIF_WORKER") == "1" {
		t.Skip("worker")
	}
	thorough := ev.Tier() == "thorough"
	p := getPool()
	defer recordPoolStats(p)
	corpus := groupFrames()
	jobs := make(chan job, 64)
	go func() {
		defer close(jobs)
		for _, cf := range corpus {
			for _, entry := range groupEntries {
				jobs <- job{c: mutCase{API: cf.API.Name, Key: cf.API.Key, Version: 1, Entry: entry, Variant: cf.Variant, Field: -1, Class: "unmutated", Splice: "inplace", Supply: "exact", FrameLen: len(cf.Frame)}, stream: cf.Frame}
			}
		}
	}()
	dispatch(p, jobs, func(a answer) {
		c := &a.j.c
		if a.err != nil {
			t.Fatalf("harness: %v", a.err)
		}
		if !evaluate(t, c, a.j.stream, a.r) {
			return
		}
		if a.r.Outcome != "decoded" || a.r.Alloc > allocBound(len(a.j.stream))/2 {
			t.Fatalf("harness: unmutated %s (%s): outcome %s %s, %d bytes allocated for %d bytes", c.API, c.Variant, a.r.Outcome, a.r.Msg, a.r.Alloc, len(a.j.stream))
		}
		ev.Count("unmutated_frames", 1)
	})
	jobs = make(chan job, 64)
	go func() {
		defer close(jobs)
		for _, cf := range corpus {
			for fi, f := range cf.Fields {
				if cf.Variant == "big" && !bigFieldWanted(f) && f.Kind != "array" {
					continue
				}
				for _, h := range hostileValues(f, len(cf.Frame), thorough) {
					if f.Width == 2 && uint16(h.Raw) == uint16(f.Value) || f.Width == 4 && uint32(h.Raw) == uint32(f.Value) {
						continue
					}
					fr := applyMutation(cf.Frame, f, h, false)
					for _, supply := range []string{"exact", "prefix"} {
						stream := supplyStream(fr, supply, f.Off+f.Width)
						if supply == "prefix" && len(stream) == len(fr) {
							continue
						}
						for _, entry := range groupEntries {
							c := mutCase{API: cf.API.Name, Key: cf.API.Key, Version: 1, Entry: entry, Variant: cf.Variant, Field: fi, Path: f.Path, Kind: f.Kind, Off: f.Off, True: f.Value,
								Class: h.Class, Raw: h.Raw, Splice: "inplace", Supply: supply, FrameLen: len(fr)}
							jobs <- job{c: withStream(c, stream), stream: stream}
						}
					}
				}
			}
		}
	}()
	var frames int64
	t0 := time.Now()
	dispatch(p, jobs, func(a answer) {
		c := &a.j.c
		if a.err != nil {
			t.Fatalf("harness: %v", a.err)
		}
		frames++
		if !evaluate(t, c, a.j.stream, a.r) {
			ev.Count("known_finding_cases", 1)
			return
		}
		ev.Case(fmt.Sprintf("%s/%d/%s/%s", c.API, c.Version, c.Kind, c.Class), a.r.Outcome != "decoded",
			"kind:"+c.Kind, "val:"+c.Class, "supply:"+c.Supply, "entry:"+c.Entry, "out:"+a.r.Outcome, "corpus:"+c.Variant)
		ev.Count("api_"+c.API, 1)
	})
	ev.Count("group_metadata_frames", frames)
	t.Logf("%d consumer-protocol values in %v", frames, time.Since(t0).Round(time.Millisecond))
}
