package c20

// The "client" entry: the same mutated frames as the Transport unit, but requested through the kafka.Client method of
// the API, so that the post-processing of the decoded response (indexing into topic / partition arrays, merging, the
// record reader of Client.Fetch, nested consumer-protocol values) is part of what is judged.

import (
	"bytes"
	"context"
	"errors"
	"io"
	"time"

	kafka "github.com/segmentio/kafka-go"
	"github.com/segmentio/kafka-go/protocol"

	"verif/refcodec"
)

// rawBatch: one well-formed v2 batch with a single record, encoded by the reference codec.
var rawBatch = func() []byte {
	rs := &refcodec.RecordSet{Batches: []refcodec.Batch{refcodec.MakeBatchV2([]refcodec.Record{{Offset: 0, Timestamp: 1, Value: []byte("x")}}, 0)}}
	b, err := rs.Encode()
	if err != nil {
		panic(err)
	}
	return b
}()

func isTransportEntry(entry string) bool {
	switch entry {
	case "transport", "transport-sasl0", "transport-sasl1", "describegroups", "client", "client-raw":
		return true
	}
	return false
}

// clientCall returns the Client method call for an API, or nil when the unit has none for it.
func clientCall(key int16) func(ctx context.Context, tr *kafka.Transport) error {
	cl := func(tr *kafka.Transport) *kafka.Client {
		return &kafka.Client{Addr: kafka.TCP(brokerAddr), Transport: tr}
	}
	switch key {
	case 0:
		return func(ctx context.Context, tr *kafka.Transport) error {
			_, err := cl(tr).Produce(ctx, &kafka.ProduceRequest{Topic: "t", Partition: 0, RequiredAcks: kafka.RequireAll,
				Records: kafka.NewRecordReader(kafka.Record{Value: kafka.NewBytes([]byte("x"))})})
			return err
		}
	case 1:
		return func(ctx context.Context, tr *kafka.Transport) error {
			res, err := cl(tr).Fetch(ctx, &kafka.FetchRequest{Topic: "t", Partition: 0, Offset: 0, MinBytes: 1, MaxBytes: 1 << 20, MaxWait: 10 * time.Millisecond})
			if err != nil {
				return err
			}
			if res.Records == nil {
				return nil
			}
			for {
				rec, err := res.Records.ReadRecord()
				if err != nil {
					if errors.Is(err, io.EOF) {
						return nil
					}
					return err
				}
				for _, b := range []kafka.Bytes{rec.Key, rec.Value} {
					if b != nil {
						io.Copy(io.Discard, b)
						b.Close()
					}
				}
			}
		}
	case 2:
		return func(ctx context.Context, tr *kafka.Transport) error {
			_, err := cl(tr).ListOffsets(ctx, &kafka.ListOffsetsRequest{Topics: map[string][]kafka.OffsetRequest{"t": {kafka.FirstOffsetOf(0), kafka.LastOffsetOf(0)}}})
			return err
		}
	case 3:
		return func(ctx context.Context, tr *kafka.Transport) error {
			_, err := cl(tr).Metadata(ctx, &kafka.MetadataRequest{Topics: []string{"t"}})
			return err
		}
	case 8:
		return func(ctx context.Context, tr *kafka.Transport) error {
			_, err := cl(tr).OffsetCommit(ctx, &kafka.OffsetCommitRequest{GroupID: "g", GenerationID: 1, MemberID: "m", Topics: map[string][]kafka.OffsetCommit{"t": {{Partition: 0, Offset: 1}}}})
			return err
		}
	case 9:
		return func(ctx context.Context, tr *kafka.Transport) error {
			_, err := cl(tr).OffsetFetch(ctx, &kafka.OffsetFetchRequest{GroupID: "g", Topics: map[string][]int{"t": {0}}})
			return err
		}
	case 10, 17, 36:
		return func(ctx context.Context, tr *kafka.Transport) error {
			_, err := cl(tr).FindCoordinator(ctx, &kafka.FindCoordinatorRequest{Key: "g", KeyType: kafka.CoordinatorKeyTypeConsumer})
			return err
		}
	case 11:
		return func(ctx context.Context, tr *kafka.Transport) error {
			_, err := cl(tr).JoinGroup(ctx, &kafka.JoinGroupRequest{GroupID: "g", SessionTimeout: 10 * time.Second, RebalanceTimeout: 10 * time.Second, ProtocolType: "consumer",
				Protocols: []kafka.GroupProtocol{{Name: "range", Metadata: kafka.GroupProtocolSubscription{Topics: []string{"t"}}}}})
			return err
		}
	case 12:
		return func(ctx context.Context, tr *kafka.Transport) error {
			_, err := cl(tr).Heartbeat(ctx, &kafka.HeartbeatRequest{GroupID: "g", GenerationID: 1, MemberID: "m"})
			return err
		}
	case 13:
		return func(ctx context.Context, tr *kafka.Transport) error {
			_, err := cl(tr).LeaveGroup(ctx, &kafka.LeaveGroupRequest{GroupID: "g", Members: []kafka.LeaveGroupRequestMember{{ID: "m"}}})
			return err
		}
	case 14:
		return func(ctx context.Context, tr *kafka.Transport) error {
			_, err := cl(tr).SyncGroup(ctx, &kafka.SyncGroupRequest{GroupID: "g", GenerationID: 1, MemberID: "m", ProtocolType: "consumer", ProtocolName: "range"})
			return err
		}
	case 15:
		return func(ctx context.Context, tr *kafka.Transport) error {
			_, err := cl(tr).DescribeGroups(ctx, &kafka.DescribeGroupsRequest{GroupIDs: []string{"g"}})
			return err
		}
	case 16:
		return func(ctx context.Context, tr *kafka.Transport) error {
			_, err := cl(tr).ListGroups(ctx, &kafka.ListGroupsRequest{})
			return err
		}
	case 18:
		return func(ctx context.Context, tr *kafka.Transport) error {
			_, err := cl(tr).ApiVersions(ctx, &kafka.ApiVersionsRequest{})
			return err
		}
	case 20:
		return func(ctx context.Context, tr *kafka.Transport) error {
			_, err := cl(tr).DeleteTopics(ctx, &kafka.DeleteTopicsRequest{Topics: []string{"t"}})
			return err
		}
	case 22:
		return func(ctx context.Context, tr *kafka.Transport) error {
			_, err := cl(tr).InitProducerID(ctx, &kafka.InitProducerIDRequest{TransactionalID: "g", TransactionTimeoutMs: 1000})
			return err
		}
	case 42:
		return func(ctx context.Context, tr *kafka.Transport) error {
			_, err := cl(tr).DeleteGroups(ctx, &kafka.DeleteGroupsRequest{GroupIDs: []string{"g"}})
			return err
		}
	case 24:
		return func(ctx context.Context, tr *kafka.Transport) error {
			_, err := cl(tr).AddPartitionsToTxn(ctx, &kafka.AddPartitionsToTxnRequest{TransactionalID: "g", ProducerID: 1, Topics: map[string][]kafka.AddPartitionToTxn{"t": {{Partition: 0}}}})
			return err
		}
	case 25:
		return func(ctx context.Context, tr *kafka.Transport) error {
			_, err := cl(tr).AddOffsetsToTxn(ctx, &kafka.AddOffsetsToTxnRequest{TransactionalID: "g", ProducerID: 1, GroupID: "g"})
			return err
		}
	case 26:
		return func(ctx context.Context, tr *kafka.Transport) error {
			_, err := cl(tr).EndTxn(ctx, &kafka.EndTxnRequest{TransactionalID: "g", ProducerID: 1, Committed: true})
			return err
		}
	case 28:
		return func(ctx context.Context, tr *kafka.Transport) error {
			_, err := cl(tr).TxnOffsetCommit(ctx, &kafka.TxnOffsetCommitRequest{TransactionalID: "g", GroupID: "g", ProducerID: 1, Topics: map[string][]kafka.TxnOffsetCommit{"t": {{Partition: 0, Offset: 1}}}})
			return err
		}
	case 29:
		return func(ctx context.Context, tr *kafka.Transport) error {
			_, err := cl(tr).DescribeACLs(ctx, &kafka.DescribeACLsRequest{Filter: kafka.ACLFilter{ResourceTypeFilter: kafka.ResourceTypeTopic, ResourceNameFilter: "t", ResourcePatternTypeFilter: kafka.PatternTypeLiteral,
				Operation: kafka.ACLOperationTypeRead, PermissionType: kafka.ACLPermissionTypeAllow}})
			return err
		}
	case 30:
		return func(ctx context.Context, tr *kafka.Transport) error {
			_, err := cl(tr).CreateACLs(ctx, &kafka.CreateACLsRequest{ACLs: []kafka.ACLEntry{{ResourceType: kafka.ResourceTypeTopic, ResourceName: "t", ResourcePatternType: kafka.PatternTypeLiteral, Principal: "User:u", Host: "*",
				Operation: kafka.ACLOperationTypeRead, PermissionType: kafka.ACLPermissionTypeAllow}}})
			return err
		}
	case 31:
		return func(ctx context.Context, tr *kafka.Transport) error {
			_, err := cl(tr).DeleteACLs(ctx, &kafka.DeleteACLsRequest{Filters: []kafka.DeleteACLsFilter{{ResourceTypeFilter: kafka.ResourceTypeTopic, ResourceNameFilter: "t", ResourcePatternTypeFilter: kafka.PatternTypeLiteral,
				Operation: kafka.ACLOperationTypeRead, PermissionType: kafka.ACLPermissionTypeAllow}}})
			return err
		}
	case 32:
		return func(ctx context.Context, tr *kafka.Transport) error {
			_, err := cl(tr).DescribeConfigs(ctx, &kafka.DescribeConfigsRequest{Resources: []kafka.DescribeConfigRequestResource{{ResourceType: kafka.ResourceTypeTopic, ResourceName: "t"}}, IncludeSynonyms: true, IncludeDocumentation: true})
			return err
		}
	case 33:
		return func(ctx context.Context, tr *kafka.Transport) error {
			_, err := cl(tr).AlterConfigs(ctx, &kafka.AlterConfigsRequest{Resources: []kafka.AlterConfigRequestResource{{ResourceType: kafka.ResourceTypeTopic, ResourceName: "t", Configs: []kafka.AlterConfigRequestConfig{{Name: "a", Value: "b"}}}}})
			return err
		}
	case 37:
		return func(ctx context.Context, tr *kafka.Transport) error {
			_, err := cl(tr).CreatePartitions(ctx, &kafka.CreatePartitionsRequest{Topics: []kafka.TopicPartitionsConfig{{Name: "t", Count: 2}}})
			return err
		}
	case 43:
		return func(ctx context.Context, tr *kafka.Transport) error {
			_, err := cl(tr).ElectLeaders(ctx, &kafka.ElectLeadersRequest{Topic: "t", Partitions: []int{0}, Timeout: time.Second})
			return err
		}
	case 44:
		return func(ctx context.Context, tr *kafka.Transport) error {
			_, err := cl(tr).IncrementalAlterConfigs(ctx, &kafka.IncrementalAlterConfigsRequest{Resources: []kafka.IncrementalAlterConfigsRequestResource{{ResourceType: kafka.ResourceTypeTopic, ResourceName: "t",
				Configs: []kafka.IncrementalAlterConfigsRequestConfig{{Name: "a", Value: "b", ConfigOperation: kafka.ConfigOperationSet}}}}})
			return err
		}
	case 45:
		return func(ctx context.Context, tr *kafka.Transport) error {
			_, err := cl(tr).AlterPartitionReassignments(ctx, &kafka.AlterPartitionReassignmentsRequest{Topic: "t", Assignments: []kafka.AlterPartitionReassignmentsRequestAssignment{{PartitionID: 0, BrokerIDs: []int{1}}}, Timeout: time.Second})
			return err
		}
	case 46:
		return func(ctx context.Context, tr *kafka.Transport) error {
			_, err := cl(tr).ListPartitionReassignments(ctx, &kafka.ListPartitionReassignmentsRequest{Topics: map[string]kafka.ListPartitionReassignmentsRequestTopic{"t": {PartitionIndexes: []int{0}}}, Timeout: time.Second})
			return err
		}
	case 47:
		return func(ctx context.Context, tr *kafka.Transport) error {
			_, err := cl(tr).OffsetDelete(ctx, &kafka.OffsetDeleteRequest{GroupID: "g", Topics: map[string][]int{"t": {0}}})
			return err
		}
	case 48:
		return func(ctx context.Context, tr *kafka.Transport) error {
			_, err := cl(tr).DescribeClientQuotas(ctx, &kafka.DescribeClientQuotasRequest{Components: []kafka.DescribeClientQuotasRequestComponent{{EntityType: "client-id", MatchType: 0, Match: "c"}}})
			return err
		}
	case 49:
		return func(ctx context.Context, tr *kafka.Transport) error {
			_, err := cl(tr).AlterClientQuotas(ctx, &kafka.AlterClientQuotasRequest{Entries: []kafka.AlterClientQuotaEntry{{Entities: []kafka.AlterClientQuotaEntity{{EntityType: "client-id", EntityName: "c"}},
				Ops: []kafka.AlterClientQuotaOps{{Key: "producer_byte_rate", Value: 1000}}}}})
			return err
		}
	case 50:
		return func(ctx context.Context, tr *kafka.Transport) error {
			_, err := cl(tr).DescribeUserScramCredentials(ctx, &kafka.DescribeUserScramCredentialsRequest{Users: []kafka.UserScramCredentialsUser{{Name: "u"}}})
			return err
		}
	case 51:
		return func(ctx context.Context, tr *kafka.Transport) error {
			_, err := cl(tr).AlterUserScramCredentials(ctx, &kafka.AlterUserScramCredentialsRequest{Deletions: []kafka.UserScramCredentialsDeletion{{Name: "u", Mechanism: kafka.ScramMechanismSha256}}})
			return err
		}
	}
	return nil
}

// rawProduceCall is Client.RawProduce with one pre-encoded (empty-valued) record set.
func rawProduceCall(ctx context.Context, tr *kafka.Transport) error {
	cl := &kafka.Client{Addr: kafka.TCP(brokerAddr), Transport: tr}
	_, err := cl.RawProduce(ctx, &kafka.RawProduceRequest{Topic: "t", Partition: 0, RequiredAcks: kafka.RequireAll,
		RawRecords: protocol.RawRecordSet{Reader: bytes.NewReader(rawBatch)}})
	return err
}

func decodeClient(key, ver int16, stream []byte, budget time.Duration) decodeResult {
	call := clientCall(key)
	if call == nil {
		return decodeResult{Outcome: "error", Msg: "harness: no Client method registered for this api"}
	}
	return decodeTransportWith("transport", key, ver, stream, budget, call)
}
