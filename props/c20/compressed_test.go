package c20

// Lengths inside compressed record payloads (xerial block size, snappy decoded
// length, lz4 / zstd / gzip header words).  They are not in the statement's list
// of fields and lie inside content that the batch / message checksum covers, so
// they are OUTSIDE the property: what a decompressor allocates, and a worker it
// takes down, is recorded as an observation (counters obs_decompressor_*, one
// sample each), never as a failure.  Failures outside the decompressors (a
// panic in the protocol package, reading past the frame) stay failures.

import (
	"bytes"
	"encoding/binary"
	"fmt"
	"io"
	"os"
	"sync/atomic"
	"testing"
	"time"

	"github.com/segmentio/kafka-go/compress"

	"verif/internal/ev"
	"verif/refcodec"
)

// decompressUsed is set to the codec code when the library asks a codec for a
// reader during a decode (classification of failures only).
var decompressUsed atomic.Int32

type flagCodec struct{ compress.Codec }

func (c flagCodec) NewReader(r io.Reader) io.ReadCloser {
	decompressUsed.Store(int32(c.Code()))
	return c.Codec.NewReader(r)
}

var codecNames = map[int32]string{1: "gzip", 2: "snappy", 3: "lz4", 4: "zstd"}

// instrumentCodecs wraps the library's codec table (worker and fuzz processes).
func instrumentCodecs() {
	for i := range compress.Codecs {
		if c := compress.Codecs[i]; c != nil {
			if _, done := c.(flagCodec); !done {
				compress.Codecs[i] = flagCodec{c}
			}
		}
	}
}

// blockedCodec refuses to decompress: in the fuzz target, where a decompressor
// that allocates gigabytes from a length inside the compressed payload (outside
// the statement) would end the fuzz worker and be reported by the engine as a
// crash, compressed batches decode to an error instead.
type blockedCodec struct{ compress.Codec }

type blockedReader struct{}

func (blockedReader) Read([]byte) (int, error) {
	return 0, fmt.Errorf("harness: decompression disabled in the fuzz target (compressed payloads are outside C20)")
}
func (blockedReader) Close() error { return nil }

func (c blockedCodec) NewReader(r io.Reader) io.ReadCloser { return blockedReader{} }

func blockCodecs() {
	for i := range compress.Codecs {
		if c := compress.Codecs[i]; c != nil {
			if _, done := c.(blockedCodec); !done {
				compress.Codecs[i] = blockedCodec{c}
			}
		}
	}
}

var xerialMagic = []byte{0x82, 'S', 'N', 'A', 'P', 'P', 'Y', 0}

// compressedFrames builds Fetch responses holding one compressed batch and the
// map of the length-like fields of the compressed payload.
func compressedFrames(seed int64) ([]*corpusFrame, error) {
	fetchAPI := refcodec.MustLookup(1)
	var out []*corpusFrame
	recs := []refcodec.Record{
		{Offset: 10, Timestamp: 1000, Key: []byte("k1"), Value: bytes.Repeat([]byte("value-"), 20)},
		{Offset: 11, Timestamp: 1001, KeyNull: true, Value: []byte("v2")},
	}
	type spec struct {
		magic  int8
		codec  int8
		xerial bool
		ver    int16
	}
	var specs []spec
	for _, codec := range []int8{refcodec.CodecGzip, refcodec.CodecSnappy, refcodec.CodecLz4, refcodec.CodecZstd} {
		specs = append(specs, spec{2, codec, true, 4 + int16(seed%8)}, spec{1, codec, true, 1 + int16(seed%3)})
		if codec == refcodec.CodecSnappy {
			specs = append(specs, spec{2, codec, false, 11}, spec{1, codec, false, 3})
		}
	}
	for _, sp := range specs {
		var b refcodec.Batch
		if sp.magic == 2 {
			b = refcodec.MakeBatchV2(recs, sp.codec)
		} else {
			b = refcodec.Batch{Magic: 1, Codec: sp.codec, Records: recs, RelativeInner: true}
		}
		b.SnappyXerial = sp.xerial
		body := map[string]any{"Topics": []any{map[string]any{"Topic": "t", "Partitions": []any{map[string]any{
			"Partition": int64(0), "HighWatermark": int64(12), "LastStableOffset": int64(12), "LogStartOffset": int64(0), "PreferredReadReplica": int64(-1),
			"AbortedTransactions": []any{}, "RecordSet": &refcodec.RecordSet{Batches: []refcodec.Batch{b}}}}}}}
		fr, fields, err := refcodec.EncodeResponse(fetchAPI, sp.ver, 0x0c20c0de, body, nil)
		if err != nil {
			return nil, err
		}
		payload := -1
		var wrapper *refcodec.LenField
		for i, f := range fields {
			switch f.Kind {
			case "batch_length":
				payload = f.Off + 53 // 4 length + 49 header bytes after it
			case "message_size":
				payload = f.Off + 26 // size crc magic attr timestamp keylen(-1) valuelen
				wrapper = &fields[i]
			}
		}
		if payload < 0 || payload+8 > len(fr) {
			return nil, fmt.Errorf("harness: cannot locate the compressed payload")
		}
		name := codecNames[int32(sp.codec)]
		var lf []refcodec.LenField
		if sp.codec == refcodec.CodecSnappy && sp.xerial {
			if !bytes.Equal(fr[payload:payload+8], xerialMagic) {
				return nil, fmt.Errorf("harness: xerial header not found at %d", payload)
			}
			bs := payload + 16
			lf = append(lf, refcodec.LenField{Path: "RecordSet.payload.xerial_block", Kind: "xerial_block_size", Off: bs, Width: 4, Value: int64(binary.BigEndian.Uint32(fr[bs:]))})
			if sp.magic == 2 { // varints are re-spliced: only where no message checksum has to follow
				v, n := binary.Uvarint(fr[bs+4:])
				lf = append(lf, refcodec.LenField{Path: "RecordSet.payload.snappy_block", Kind: "snappy_decoded_len", Off: bs + 4, Width: n, Varint: true, Value: int64(v)})
			}
		} else if sp.codec == refcodec.CodecSnappy && sp.magic == 2 {
			v, n := binary.Uvarint(fr[payload:])
			lf = append(lf, refcodec.LenField{Path: "RecordSet.payload.snappy_block", Kind: "snappy_decoded_len", Off: payload, Width: n, Varint: true, Value: int64(v)})
		}
		if sp.codec != refcodec.CodecSnappy {
			for o := 0; o < 16 && payload+o+4 <= len(fr); o++ {
				lf = append(lf, refcodec.LenField{Path: fmt.Sprintf("RecordSet.payload[%d:%d]", o, o+4), Kind: "codec_header_" + name, Off: payload + o, Width: 4, Value: int64(binary.BigEndian.Uint32(fr[payload+o:]))})
			}
		}
		variant := fmt.Sprintf("compressed-m%d-%s", sp.magic, name)
		if !sp.xerial && sp.codec == refcodec.CodecSnappy {
			variant += "-unframed"
		}
		cf := &corpusFrame{API: fetchAPI, Ver: sp.ver, Variant: variant, Seed: int(seed), Frame: fr, Fields: lf}
		if wrapper != nil {
			cf.Fields = append(cf.Fields, *wrapper) // last entry: where the message checksum is
		}
		out = append(out, cf)
	}
	return out, nil
}

// fixWrapperCRC recomputes the checksum of the format-1 wrapper message after
// its (compressed) value was edited in place.
func fixWrapperCRC(fr []byte, msgSize refcodec.LenField) {
	crcOff := msgSize.Off + 4
	end := crcOff + int(msgSize.Value)
	if end > len(fr) {
		return
	}
	binary.BigEndian.PutUint32(fr[crcOff:], refcodec.CRC32(fr[crcOff+4:end]))
}

func headerWords() []hostile {
	return []hostile{{Class: "be_i32max", Raw: 0x7fffffff}, {Class: "be_u32max", Raw: 0xffffffff}, {Class: "le_i32max", Raw: 0xffffff7f},
		{Class: "le_p2_24", Raw: 0x00000001}, {Class: "le_p2_30", Raw: 0x00000040}, {Class: "be_p2_30", Raw: 0x40000000}, {Class: "zero", Raw: 0}}
}

// TestCompressedLengths puts hostile values into the length fields of
// compressed record payloads of Fetch responses.
func TestCompressedLengths(t *testing.T) {
	if os.Getenv("VERIF_WORKER") == "1" {
		t.Skip("worker")
	}
	thorough := ev.Tier() == "thorough"
	p := getPool()
	defer recordPoolStats(p)
	corpus, err := compressedFrames(ev.Seed())
	if err != nil {
		t.Fatalf("%v", err)
	}
	jobs := make(chan job, 64)
	go func() {
		defer close(jobs)
		for _, cf := range corpus {
			jobs <- job{c: mutCase{API: cf.API.Name, Key: cf.API.Key, Version: cf.Ver, Entry: "read", Variant: cf.Variant, Seed: cf.Seed, Field: -1, Class: "unmutated", Splice: "inplace", Supply: "exact", FrameLen: len(cf.Frame)}, stream: cf.Frame}
		}
	}()
	dispatch(p, jobs, func(a answer) {
		c := &a.j.c
		if a.err != nil {
			t.Fatalf("harness: %v", a.err)
		}
		if !evaluate(t, c, a.j.stream, a.r) {
			return
		}
		if a.r.Outcome != "decoded" || a.r.Consumed != len(a.j.stream) {
			t.Fatalf("harness: unmutated %s v%d %s: outcome %s %s, consumed %d of %d, %d bytes allocated", c.API, c.Version, c.Variant, a.r.Outcome, a.r.Msg, a.r.Consumed, len(a.j.stream), a.r.Alloc)
		}
		ev.Count("unmutated_frames", 1)
	})
	jobs = make(chan job, 64)
	go func() {
		defer close(jobs)
		for _, cf := range corpus {
			var wrapper *refcodec.LenField
			fields := cf.Fields
			if n := len(fields); n > 0 && fields[n-1].Kind == "message_size" {
				wrapper, fields = &fields[n-1], fields[:n-1]
			}
			for fi, f := range fields {
				vals := hostileValues(f, len(cf.Frame), thorough)
				if !f.Varint && f.Kind != "xerial_block_size" {
					vals = headerWords()
				}
				for _, h := range vals {
					if h.Overlong == 0 && (f.Varint && h.Raw == uint64(f.Value) || !f.Varint && uint32(h.Raw) == uint32(f.Value)) {
						continue
					}
					for _, adjust := range []bool{true, false} {
						if !f.Varint && !adjust {
							continue
						}
						fr := applyMutation(cf.Frame, f, h, adjust)
						if wrapper != nil {
							fixWrapperCRC(fr, *wrapper)
						}
						sp := "inplace"
						if f.Varint {
							sp = map[bool]string{true: "adjust", false: "keep"}[adjust]
						}
						c := mutCase{API: cf.API.Name, Key: cf.API.Key, Version: cf.Ver, Entry: "read", Variant: cf.Variant, Seed: cf.Seed, Field: fi, Path: f.Path, Kind: f.Kind, Off: f.Off, True: f.Value,
							Class: h.Class, Raw: h.Raw, Splice: sp, Supply: "exact", Obs: true, FrameLen: len(fr)}
						jobs <- job{c: withStream(c, fr), stream: fr}
					}
				}
			}
		}
	}()
	var frames int64
	t0 := time.Now()
	dispatch(p, jobs, func(a answer) {
		c := &a.j.c
		if a.err != nil {
			t.Fatalf("harness: %v", a.err)
		}
		frames++
		if !evaluate(t, c, a.j.stream, a.r) {
			ev.Count("known_finding_cases", 1)
			return
		}
		if a.r.Alloc > allocBound(len(a.j.stream)) {
			ev.Label("obs:alloc_above_bound_in_decompressor")
		}
		ev.Case(fmt.Sprintf("%s/%d/%s/%s/%s", c.API, c.Version, c.Variant, c.Kind, c.Class), a.r.Outcome != "decoded",
			"kind:"+c.Kind, "val:"+c.Class, "out:"+a.r.Outcome, "corpus:"+c.Variant)
	})
	ev.Count("compressed_payload_frames", frames)
	t.Logf("%d frames with mutated compressed payloads in %v", frames, time.Since(t0).Round(time.Millisecond))
}
