package c20

// Well-formed corpus (reference-encoded responses with their field maps) and
// the hostile mutations of the length / count fields.

import (
	"encoding/binary"
	"fmt"
	"math"
	"regexp"
	"strings"

	"pgregory.net/rapid"

	"verif/refcodec"
)

// corpusFrame is one well-formed response frame with the encoder's field map.
type corpusFrame struct {
	API     *refcodec.API
	Ver     int16
	Variant string // rich | big | fetch-m0 | fetch-m1 | fetch-m2
	Seed    int
	Frame   []byte
	Fields  []refcodec.LenField
}

// variantsFor lists the corpus variants of an API.
func variantsFor(a *refcodec.API) []string {
	if a.Key == 1 {
		return []string{"fetch-m0", "fetch-m1", "fetch-m2", "big"}
	}
	return []string{"rich", "big"}
}

// fetchRecords draws small uncompressed record sets of one format, so that the
// lengths inside are reachable: formats 0/1 as runs of plain messages (one
// message_size each), format 2 as batches (one batch_length each).
//
// The library keeps one 64 KiB page per format-0/1 message and per format-2
// batch it decodes (also for well-formed input, see the note in the evidence),
// so only the first two partitions of a frame carry records: the unmutated
// frame must stay well inside the allocation bound for mutations to be judged.
func fetchRecords(magic int8) func(t *rapid.T, path string) *refcodec.RecordSet {
	calls := 0
	return func(t *rapid.T, path string) *refcodec.RecordSet {
		calls++
		if calls > 2 || magic < 0 {
			return nil
		}
		rs := &refcodec.RecordSet{}
		off := int64(rapid.IntRange(0, 1000).Draw(t, "base"))
		nb := rapid.IntRange(1, 2).Draw(t, "nBatches")
		for i := 0; i < nb; i++ {
			n := rapid.IntRange(1, 2).Draw(t, "nRecords")
			recs := refcodec.GenRecords(t, n, off, magic, false, false)
			off = recs[len(recs)-1].Offset + 1
			if magic == 2 {
				rs.Batches = append(rs.Batches, refcodec.MakeBatchV2(recs, refcodec.CodecNone))
			} else {
				rs.Batches = append(rs.Batches, refcodec.Batch{Magic: magic, Codec: refcodec.CodecNone, Records: recs})
			}
		}
		return rs
	}
}

type candidate struct {
	frame  []byte
	fields []refcodec.LenField
	body   map[string]any
}

func genCandidate(a *refcodec.API, ver int16, variant string, seed int) (c candidate, err error) {
	defer func() {
		if p := recover(); p != nil {
			err = fmt.Errorf("generator panicked: %v", p)
		}
	}()
	type out struct{ body map[string]any }
	g := rapid.Custom(func(t *rapid.T) out {
		var recs func(t *rapid.T, path string) *refcodec.RecordSet
		if a.Key == 1 {
			switch variant {
			case "fetch-m0":
				recs = fetchRecords(0)
			case "fetch-m1":
				recs = fetchRecords(1)
			case "fetch-m2":
				recs = fetchRecords(2)
			case "aligned":
				recs = fetchRecords(int8(1 + seed%2))
			default:
				recs = fetchRecords(-1) // big frames: no records
			}
		}
		return out{refcodec.GenBody(t, a.Resp, ver, refcodec.ForLibDecode, 0, recs)}
	})
	o := g.Example(seed)
	// unknown tagged fields: a deterministic function of the seed and of the
	// position of the struct in the encoding
	opt := &refcodec.EncOpts{}
	if a.RespFlexible(ver) {
		k := 0
		opt.UnknownTags = func(path string) []refcodec.RawTag {
			k++
			h := uint64(seed)*1000003 + uint64(k)*7919
			switch h % 4 {
			case 0:
				return []refcodec.RawTag{{ID: 20 + h%50, Data: []byte{1, 2, 3}}}
			case 1:
				return []refcodec.RawTag{{ID: 30 + h%9, Data: nil}, {ID: 300 + h%1000, Data: []byte("abcdefghij")}}
			}
			return nil
		}
	}
	if variant == "aligned" {
		align(o.body, "")
	}
	if variant == "big" {
		if !inflate(a.Resp, ver, o.body) {
			return candidate{}, errNoArray
		}
	}
	fr, fields, err := refcodec.EncodeResponse(a, ver, int32(0x0c200000+seed&0xffff), o.body, opt)
	if err != nil {
		return candidate{}, err
	}
	return candidate{fr, fields, o.body}, nil
}

// align rewrites a generated response body so that it answers the requests of the Transport / Client units: topic "t",
// partitions numbered from 0, group "g", no error codes.  The Client methods then take their success paths through the
// (mutated) arrays instead of stopping at "not what I asked for".
func align(v any, parent string) {
	switch x := v.(type) {
	case map[string]any:
		for k, e := range x {
			switch {
			case k == "Topic" || k == "TopicName" || (k == "Name" && parent == "Topics"):
				if _, ok := e.(string); ok {
					x[k] = "t"
				}
			case k == "GroupID":
				if _, ok := e.(string); ok {
					x[k] = "g"
				}
			case k == "ErrorCode":
				if _, ok := e.(int64); ok {
					x[k] = int64(0)
				}
			default:
				align(e, k)
			}
		}
	case []any:
		for i, e := range x {
			if m, ok := e.(map[string]any); ok {
				for _, pk := range []string{"Partition", "PartitionIndex"} {
					if _, ok := m[pk].(int64); ok {
						m[pk] = int64(i)
					}
				}
			}
			align(e, parent)
		}
	}
}

var errNoArray = fmt.Errorf("no top-level array to inflate")

const bigCount = 600 // > decoder's 512-element preallocation: the array grows while decoding

// inflate replicates the first element of the first top-level array that has
// one to bigCount elements (generating one element when all are empty is left
// to another seed).
func inflate(fs []refcodec.Field, ver int16, body map[string]any) bool {
	for i := range fs {
		f := &fs[i]
		if !f.In(ver) || f.T.Kind != refcodec.KArray || f.TaggedIn(ver) {
			continue
		}
		a, _ := body[f.N].([]any)
		if len(a) == 0 {
			continue
		}
		big := make([]any, bigCount)
		for k := range big {
			big[k] = a[k%len(a)]
		}
		body[f.N] = big
		return true
	}
	return false
}

func kindsOf(fields []refcodec.LenField) map[string]int {
	m := map[string]int{}
	for _, f := range fields {
		m[f.Kind]++
	}
	return m
}

var indexRe = regexp.MustCompile(`\[\d+\]`)

// slotKey names a length field of the schema: its path without array indices, and its kind.
func slotKey(f refcodec.LenField) string {
	return indexRe.ReplaceAllString(f.Path, "[]") + "#" + f.Kind
}

func slotsOf(fields []refcodec.LenField) map[string]bool {
	m := map[string]bool{}
	for _, f := range fields {
		m[slotKey(f)] = true
	}
	return m
}

// frameFromSeed regenerates one corpus frame from its exact candidate seed
// (what a replay file stores).
func frameFromSeed(a *refcodec.API, ver int16, variant string, candSeed int) (*corpusFrame, error) {
	c, err := genCandidate(a, ver, variant, candSeed)
	if err != nil {
		return nil, err
	}
	return &corpusFrame{API: a, Ver: ver, Variant: variant, Seed: candSeed, Frame: c.frame, Fields: c.fields}, nil
}

const candidatesPerFrame = 16

// buildFrames draws candidatesPerFrame candidates from seed and picks up to
// maxFrames of them greedily so that together they contain as many distinct
// length fields of the schema (slots) as possible: a nested array is only met
// when its parents are non-empty.  It also returns how many slots the
// candidates showed in total and how many the picked frames contain.
func buildFrames(a *refcodec.API, ver int16, variant string, seed, maxFrames int) (frames []*corpusFrame, seen, covered int, err error) {
	limit := 6000
	n := candidatesPerFrame
	if variant == "big" {
		limit, n = 300000, 8
	}
	var cands []*corpusFrame
	union := map[string]bool{}
	var lastErr error
	for i := 0; i < n; i++ {
		cf, e := frameFromSeed(a, ver, variant, seed*candidatesPerFrame+i)
		if e != nil {
			lastErr = e
			continue
		}
		if len(cf.Frame) > limit {
			continue
		}
		cands = append(cands, cf)
		for k := range slotsOf(cf.Fields) {
			union[k] = true
		}
		if variant == "big" {
			break
		}
	}
	if len(cands) == 0 {
		if lastErr == nil {
			lastErr = fmt.Errorf("all candidates above %d bytes", limit)
		}
		return nil, 0, 0, lastErr
	}
	have := map[string]bool{}
	for len(frames) < maxFrames {
		best, bestGain := -1, 0
		for i, cf := range cands {
			if cf == nil {
				continue
			}
			gain := 0
			for k := range slotsOf(cf.Fields) {
				if !have[k] {
					gain++
				}
			}
			// ties: the smaller frame
			if gain > bestGain || gain == bestGain && gain > 0 && len(cf.Frame) < len(cands[best].Frame) {
				best, bestGain = i, gain
			}
		}
		if best < 0 {
			break
		}
		for k := range slotsOf(cands[best].Fields) {
			have[k] = true
		}
		frames = append(frames, cands[best])
		cands[best] = nil
	}
	return frames, len(union), len(have), nil
}

// buildFrame returns the first (richest) frame of buildFrames.
func buildFrame(a *refcodec.API, ver int16, variant string, seed int) (*corpusFrame, error) {
	fs, _, _, err := buildFrames(a, ver, variant, seed, 1)
	if err != nil {
		return nil, err
	}
	return fs[0], nil
}

// ---------------------------------------------------------------------------
// hostile values

// hostile is one substitution for a field.
type hostile struct {
	Class    string
	Raw      uint64 // value on the wire (two's complement for fixed-width fields)
	Overlong int    // varints: encode in exactly this many bytes (0 = minimal); 11 with Unterm: no terminator
	Unterm   bool
}

func compactKind(kind string) bool {
	return kind == "compact_string" || kind == "compact_bytes" || kind == "compact_array"
}

// checksummed reports whether a field lies inside content covered by a record
// checksum (key/value lengths of format-0/1 messages): the statement scopes
// those out, their results are observations only.
func checksummed(f refcodec.LenField) bool {
	return (f.Kind == "bytes" || f.Kind == "varint_len") && strings.Contains(f.Path, "batch[")
}

// hostileValues lists the substitutions for field f of a frame of n bytes.
// thorough adds boundaries of the varint widths and more powers of two.
func hostileValues(f refcodec.LenField, n int, thorough bool) []hostile {
	rem := uint64(n - (f.Off + f.Width))
	tv := uint64(f.Value)
	var out []hostile
	add := func(class string, raw uint64) { out = append(out, hostile{Class: class, Raw: raw}) }
	neg := func(v int64) uint64 { return uint64(v) }
	if f.Varint {
		add("zero", 0)
		add("one", 1)
		if tv > 0 {
			add("true_m1", tv-1)
		}
		add("true_p1", tv+1)
		// a little too small / too large: the announced extent ends inside the next nested field instead of at its end
		for _, d := range []uint64{2, 3, 5, 8, 12, 16, 20} {
			if tv > d {
				add(fmt.Sprintf("true_m%d", d), tv-d)
			}
			add(fmt.Sprintf("true_p%d", d), tv+d)
		}
		if tv > 3 {
			add("true_half", tv/2)
		}
		add("remain", rem)
		add("remain_p1", rem+1)
		if compactKind(f.Kind) {
			add("remain_p2", rem+2) // length = remaining+1
		}
		add("i16max", 1<<15-1)
		add("p2_16", 1<<16)
		add("v512", 512)
		add("v513", 513)
		add("v514", 514)
		add("v65537", 65537)
		add("v65538", 65538)
		add("i32max", 1<<31-1)
		add("p2_31", 1<<31)
		add("u32max", 1<<32-1)
		add("i63max", 1<<63-1)
		add("p2_63", 1<<63)
		add("u64max", math.MaxUint64)
		out = append(out, hostile{Class: "overlong10", Raw: tv, Overlong: 10})
		out = append(out, hostile{Class: "overlong11", Raw: tv, Overlong: 11})
		out = append(out, hostile{Class: "unterminated11", Raw: math.MaxUint64, Overlong: 11, Unterm: true})
		if thorough {
			for _, k := range []uint{7, 14, 21, 28, 32, 35, 42, 49, 56, 62} {
				add(fmt.Sprintf("p2_%d", k), 1<<k)
				add(fmt.Sprintf("p2_%d_m1", k), 1<<k-1)
			}
			add("p2_31_p1", 1<<31+1)
			add("p2_32_p1", 1<<32+1) // int32 truncation gives 1
			add("u64max_m1", math.MaxUint64-1)
		}
		return out
	}
	fits := func(v int64) bool {
		if f.Width == 2 {
			return v >= math.MinInt16 && v <= math.MaxInt16
		}
		return v >= math.MinInt32 && v <= math.MaxInt32
	}
	addS := func(class string, v int64) {
		if fits(v) {
			add(class, neg(v))
		}
	}
	tvs := f.Value
	addS("m1", -1)
	addS("zero", 0)
	addS("one", 1)
	addS("true_m1", tvs-1)
	addS("true_p1", tvs+1)
	for _, d := range []int64{2, 3, 5, 8, 12, 16, 20} {
		if tvs > d {
			addS(fmt.Sprintf("true_m%d", d), tvs-d)
		}
		addS(fmt.Sprintf("true_p%d", d), tvs+d)
	}
	if tvs > 3 {
		addS("true_half", tvs/2)
	}
	addS("remain", int64(rem))
	addS("remain_p1", int64(rem)+1)
	addS("i16max", 1<<15-1)
	addS("p2_16", 1<<16)
	addS("v512", 512)
	addS("v513", 513)
	addS("v65537", 65537)
	addS("i32max", math.MaxInt32)
	if f.Width == 2 {
		addS("i16min", math.MinInt16)
		addS("m2", -2)
	} else {
		addS("i32min", math.MinInt32)
		addS("m2", -2)
	}
	if thorough {
		for _, k := range []uint{7, 8, 14, 21, 24, 28, 30} {
			addS(fmt.Sprintf("p2_%d", k), 1<<k)
			addS(fmt.Sprintf("p2_%d_m1", k), 1<<k-1)
		}
		addS("remain_m1", int64(rem)-1)
		addS("i32max_m1", math.MaxInt32-1)
		addS("i32min_p1", math.MinInt32+1)
		// batch header sizes
		addS("v48", 48)
		addS("v49", 49)
		addS("v12", 12)
		addS("v14", 14)
		addS("v17", 17)
	} else if f.Kind == "batch_length" {
		addS("v48", 48)
		addS("v49", 49)
	}
	return out
}

func uvarintMin(v uint64) []byte {
	var b []byte
	for v >= 0x80 {
		b = append(b, byte(v)|0x80)
		v >>= 7
	}
	return append(b, byte(v))
}

// uvarintPadded encodes v in exactly n bytes (n >= minimal length): the value
// bits, then continuation bytes carrying zero bits.
func uvarintPadded(v uint64, n int, unterminated bool) []byte {
	b := make([]byte, 0, n)
	for i := 0; i < n; i++ {
		c := byte(v & 0x7f)
		v >>= 7
		if i < n-1 || unterminated {
			c |= 0x80
		}
		b = append(b, c)
	}
	return b
}

// applyMutation returns the frame with field f replaced by h.  Fixed-width
// fields are overwritten in place; varints are re-spliced, and adjust says
// whether the frame size prefix follows the new length (true) or keeps
// announcing the original one (false).
func applyMutation(frame []byte, f refcodec.LenField, h hostile, adjust bool) []byte {
	if !f.Varint {
		out := append([]byte{}, frame...)
		switch f.Width {
		case 2:
			binary.BigEndian.PutUint16(out[f.Off:], uint16(h.Raw))
		case 4:
			binary.BigEndian.PutUint32(out[f.Off:], uint32(h.Raw))
		}
		return out
	}
	var enc []byte
	if h.Overlong > 0 {
		enc = uvarintPadded(h.Raw, h.Overlong, h.Unterm)
	} else {
		enc = uvarintMin(h.Raw)
	}
	out := make([]byte, 0, len(frame)+len(enc))
	out = append(out, frame[:f.Off]...)
	out = append(out, enc...)
	out = append(out, frame[f.Off+f.Width:]...)
	if adjust && len(out) >= 4 {
		binary.BigEndian.PutUint32(out, uint32(len(out)-4))
	}
	return out
}

// trailer is what follows the frame on the connection in the "trail" supply
// mode: further (well-formed) responses.
var trailer = func() []byte {
	hb, _, _ := refcodec.EncodeResponse(refcodec.MustLookup(12), 0, 0x5e171e1, map[string]any{"ErrorCode": int64(0)}, nil)
	var b []byte
	for i := 0; i < 8; i++ {
		b = append(b, hb...)
	}
	return b
}()

// supplyStream builds the bytes handed to the decoder for a supply mode.
// fieldEnd is the offset just after the mutated field in frame.
func supplyStream(frame []byte, mode string, fieldEnd int) []byte {
	switch mode {
	case "trail":
		return append(append([]byte{}, frame...), trailer...)
	case "prefix":
		cut := fieldEnd + (len(frame)-fieldEnd)/2
		if cut > len(frame) {
			cut = len(frame)
		}
		return append([]byte{}, frame[:cut]...)
	case "bigframe":
		out := append([]byte{}, frame...)
		if len(out) >= 4 {
			binary.BigEndian.PutUint32(out, math.MaxInt32)
		}
		return out
	}
	return frame
}

// schemaSlots lists, from the schema table alone, the string / bytes / array /
// record-set length fields a response of this version can contain (tag buffers
// aside), named like slotKey names the encoder's fields.
func schemaSlots(a *refcodec.API, ver int16) map[string]bool {
	out := map[string]bool{}
	flex := a.RespFlexible(ver)
	pre := func(k string) string {
		if flex {
			return "compact_" + k
		}
		return k
	}
	var walkType func(path string, t *refcodec.Type)
	var walkFields func(path string, fs []refcodec.Field)
	walkType = func(path string, t *refcodec.Type) {
		switch t.Kind {
		case refcodec.KString:
			out[path+"#"+pre("string")] = true
		case refcodec.KBytes:
			out[path+"#"+pre("bytes")] = true
		case refcodec.KArray:
			out[path+"#"+pre("array")] = true
			walkType(path+".[]", t.Elem)
		case refcodec.KStruct:
			walkFields(path, t.Fields)
		case refcodec.KRecords:
			out[path+"#records_size"] = true
		}
	}
	walkFields = func(path string, fs []refcodec.Field) {
		for i := range fs {
			f := &fs[i]
			if !f.In(ver) || f.TaggedIn(ver) {
				continue
			}
			p := f.N
			if path != "" {
				p = path + "." + f.N
			}
			if f.T.Kind == refcodec.KInline {
				walkFields(p, f.T.Fields)
				continue
			}
			walkType(p, f.T)
		}
	}
	walkFields("", a.Resp)
	return out
}
