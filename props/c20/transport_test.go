package c20

// The same frames through a real kafka.Transport: a memnet handler answers the
// ApiVersions request (and Metadata / FindCoordinator / SASL steps) properly and
// sends the case's bytes as the response to the first request of the target API,
// then ends the connection.

import (
	"context"
	"encoding/binary"
	"encoding/hex"
	"errors"
	"fmt"
	"io"
	"os"
	"sync"
	"sync/atomic"
	"testing"
	"time"

	kafka "github.com/segmentio/kafka-go"
	"github.com/segmentio/kafka-go/protocol"
	"github.com/segmentio/kafka-go/protocol/fetch"
	"github.com/segmentio/kafka-go/protocol/findcoordinator"
	"github.com/segmentio/kafka-go/protocol/joingroup"
	"github.com/segmentio/kafka-go/protocol/listoffsets"
	"github.com/segmentio/kafka-go/protocol/metadata"
	"github.com/segmentio/kafka-go/protocol/produce"
	"github.com/segmentio/kafka-go/protocol/syncgroup"
	"github.com/segmentio/kafka-go/sasl/plain"

	"verif/internal/ev"
	"verif/internal/libtypes"
	"verif/memnet"
	"verif/refcodec"
)

const brokerAddr = "b1.fake:9092"

func mustEncode(key, ver int16, body map[string]any) []byte {
	fr, _, err := refcodec.EncodeResponse(refcodec.MustLookup(key), ver, 0, body, nil)
	if err != nil {
		panic(err)
	}
	return fr
}

// properFrames are the well-formed answers of the handler, encoded once per
// (target, version, sasl mode); the handler only patches the correlation id.
type properFrames struct {
	apiVersions []byte
	metadata    map[int16][]byte
	findCoord   map[int16][]byte
	handshake   map[int16][]byte
	saslAuth    []byte
}

var (
	properMu    sync.Mutex
	properCache = map[string]*properFrames{}
)

func properFor(target, ver int16, saslV0 bool) *properFrames {
	k := fmt.Sprintf("%d/%d/%v", target, ver, saslV0)
	properMu.Lock()
	defer properMu.Unlock()
	if p := properCache[k]; p != nil {
		return p
	}
	var keys []any
	for i := range refcodec.APIs {
		a := &refcodec.APIs[i]
		lo, hi := a.Min, a.Max
		switch {
		case a.Key == target:
			lo, hi = ver, ver
		case a.Key == 3:
			lo, hi = 1, 1
		case a.Key == 10:
			lo, hi = 0, 0
		case a.Key == 17 && saslV0:
			lo, hi = 0, 0
		case a.Key == 17:
			lo, hi = 1, 1
		case a.Key == 36:
			lo, hi = 1, 1
		}
		keys = append(keys, map[string]any{"ApiKey": int64(a.Key), "MinVersion": int64(lo), "MaxVersion": int64(hi)})
	}
	p := &properFrames{metadata: map[int16][]byte{}, findCoord: map[int16][]byte{}, handshake: map[int16][]byte{}}
	p.apiVersions = mustEncode(18, 0, map[string]any{"ErrorCode": int64(0), "ApiKeys": keys})
	md := map[string]any{
		"Brokers":      []any{map[string]any{"NodeID": int64(1), "Host": "b1.fake", "Port": int64(9092), "Rack": nil}},
		"ClusterID":    "c",
		"ControllerID": int64(1),
		"Topics": []any{map[string]any{"ErrorCode": int64(0), "Name": "t", "IsInternal": false,
			"Partitions": []any{map[string]any{"ErrorCode": int64(0), "PartitionIndex": int64(0), "LeaderID": int64(1), "LeaderEpoch": int64(0),
				"ReplicaNodes": []any{int64(1)}, "IsrNodes": []any{int64(1)}, "OfflineReplicas": []any{}}}}},
	}
	for v := int16(0); v <= 8; v++ {
		p.metadata[v] = mustEncode(3, v, md)
	}
	for v := int16(0); v <= 2; v++ {
		p.findCoord[v] = mustEncode(10, v, map[string]any{"ErrorCode": int64(0), "NodeID": int64(1), "Host": "b1.fake", "Port": int64(9092)})
	}
	for v := int16(0); v <= 1; v++ {
		p.handshake[v] = mustEncode(17, v, map[string]any{"ErrorCode": int64(0), "Mechanisms": []any{"PLAIN"}})
	}
	p.saslAuth = mustEncode(36, 1, map[string]any{"ErrorCode": int64(0), "ErrorMessage": nil, "AuthBytes": []byte{}, "SessionLifetimeMs": int64(0)})
	properCache[k] = p
	return p
}

func withCorr(frame []byte, corr int32) []byte {
	out := append([]byte{}, frame...)
	if len(out) >= 8 {
		binary.BigEndian.PutUint32(out[4:], uint32(corr))
	}
	return out
}

// requestFor builds a request of the API that the Transport can route with the
// handler's one-broker, one-topic cluster.
func requestFor(key int16) protocol.Message {
	switch key {
	case 0:
		return &produce.Request{Acks: -1, Timeout: 1000, Topics: []produce.RequestTopic{{Topic: "t", Partitions: []produce.RequestPartition{{Partition: 0,
			RecordSet: protocol.RecordSet{Version: 2, Records: protocol.NewRecordReader(protocol.Record{Value: protocol.NewBytes([]byte("x"))})}}}}}}
	case 1:
		return &fetch.Request{ReplicaID: -1, MaxWaitTime: 10, MinBytes: 1, MaxBytes: 1 << 20, Topics: []fetch.RequestTopic{{Topic: "t", Partitions: []fetch.RequestPartition{{Partition: 0, PartitionMaxBytes: 1 << 20}}}}}
	case 2:
		return &listoffsets.Request{ReplicaID: -1, Topics: []listoffsets.RequestTopic{{Topic: "t", Partitions: []listoffsets.RequestPartition{{Partition: 0, Timestamp: -1}}}}}
	case 3:
		return &metadata.Request{TopicNames: []string{"t"}}
	case 10, 17, 18, 36:
		return &findcoordinator.Request{Key: "g"}
	case 11:
		return &joingroup.Request{GroupID: "g", SessionTimeoutMS: 10000, ProtocolType: "consumer", Protocols: []joingroup.RequestProtocol{{Name: "range", Metadata: []byte{0, 0}}}}
	case 14:
		return &syncgroup.Request{GroupID: "g", GenerationID: 1, MemberID: "m"}
	}
	if key < 0 {
		return &findcoordinator.Request{Key: "g"}
	}
	return libtypes.NewRequest(key)
}

// decodeTransport runs one Transport.RoundTrip against the handler.  key -1
// with entry transport-sasl0 targets the raw SASL token exchange.
func decodeTransport(entry string, key, ver int16, stream []byte, budget time.Duration) (res decodeResult) {
	return decodeTransportWith(entry, key, ver, stream, budget, nil)
}

// decodeDescribeGroups hands a consumer-protocol value (member metadata for keySubscription, member assignment for
// keyAssignment) to Client.DescribeGroups inside an otherwise well-formed DescribeGroups v0 response: the client decodes
// those BYTES fields with readers of its own (describegroups.go), not with protocol.Unmarshal.
func decodeDescribeGroups(key int16, blob []byte, budget time.Duration) decodeResult {
	member := map[string]any{"MemberID": "m1", "GroupInstanceID": nil, "ClientID": "c", "ClientHost": "/127.0.0.1", "MemberMetadata": []byte{}, "MemberAssignment": []byte{}}
	if key == keySubscription {
		member["MemberMetadata"] = blob
	} else {
		member["MemberAssignment"] = blob
	}
	frame := mustEncode(15, 0, map[string]any{"Groups": []any{map[string]any{"ErrorCode": int64(0), "GroupID": "g", "GroupState": "Stable", "ProtocolType": "consumer", "ProtocolData": "range",
		"Members": []any{member}}}})
	return decodeTransportWith("transport", 15, 0, frame, budget, func(ctx context.Context, tr *kafka.Transport) error {
		_, err := (&kafka.Client{Addr: kafka.TCP(brokerAddr), Transport: tr}).DescribeGroups(ctx, &kafka.DescribeGroupsRequest{GroupIDs: []string{"g"}})
		return err
	})
}

func decodeTransportWith(entry string, key, ver int16, stream []byte, budget time.Duration, call func(ctx context.Context, tr *kafka.Transport) error) (res decodeResult) {
	saslV0 := entry == "transport-sasl0"
	useSasl := entry != "transport"
	pf := properFor(key, ver, saslV0)
	nw := memnet.New()
	var served atomic.Bool
	var delivered atomic.Int64
	nw.Listen(brokerAddr, func(sc *memnet.ServerConn) {
		defer sc.Close()
		raw := false
		for {
			var szb [4]byte
			if _, err := io.ReadFull(sc, szb[:]); err != nil {
				return
			}
			size := int32(binary.BigEndian.Uint32(szb[:]))
			if size < 0 || size > 16<<20 {
				return
			}
			body := make([]byte, size)
			if _, err := io.ReadFull(sc, body); err != nil {
				return
			}
			if raw {
				// raw SASL token after a v0 handshake
				if key == -1 && served.CompareAndSwap(false, true) {
					sc.Write(stream)
					delivered.Add(int64(len(stream)))
					sc.Abort(false)
					return
				}
				sc.Write([]byte{0, 0, 0, 0}) // empty server token: authenticated
				delivered.Add(4)
				raw = false
				continue
			}
			if len(body) < 8 {
				return
			}
			apiKey := int16(binary.BigEndian.Uint16(body[0:]))
			apiVer := int16(binary.BigEndian.Uint16(body[2:]))
			corr := int32(binary.BigEndian.Uint32(body[4:]))
			if apiKey == key && served.CompareAndSwap(false, true) {
				out := withCorr(stream, corr)
				sc.Write(out)
				delivered.Add(int64(len(out)))
				sc.Abort(false)
				return
			}
			var out []byte
			switch apiKey {
			case 18:
				out = pf.apiVersions
			case 3:
				out = pf.metadata[apiVer]
			case 10:
				out = pf.findCoord[apiVer]
			case 17:
				out = pf.handshake[apiVer]
				raw = apiVer == 0
			case 36:
				out = pf.saslAuth
			}
			if out == nil {
				return
			}
			out = withCorr(out, corr)
			sc.Write(out)
			delivered.Add(int64(len(out)))
		}
	})
	tr := &kafka.Transport{Dial: nw.Dial, DialTimeout: budget, ClientID: "c20"}
	if useSasl {
		tr.SASL = plain.Mechanism{Username: "u", Password: "p"}
	}
	defer func() {
		res.Consumed = int(delivered.Load())
		if p := recover(); p != nil {
			res.Outcome = "panic"
			res.Msg = fmt.Sprintf("%v", p)
		}
		tr.CloseIdleConnections()
		nw.Shutdown()
	}()
	rt := budget * 3 / 4
	ctx, cancel := context.WithTimeout(context.Background(), rt)
	defer cancel()
	var err error
	if call != nil {
		err = call(ctx, tr)
	} else {
		_, err = tr.RoundTrip(ctx, kafka.TCP(brokerAddr), requestFor(key))
	}
	switch {
	case !served.Load():
		msg := "the target frame was never requested"
		if err != nil {
			msg += ": " + err.Error()
		}
		return decodeResult{Outcome: "unserved", Msg: msg}
	case err == nil:
		return decodeResult{Outcome: "decoded"}
	case errors.Is(err, context.DeadlineExceeded):
		// every byte and the end of the stream were delivered: the client had
		// all it needed to return
		return decodeResult{Outcome: "timeout", Msg: fmt.Sprintf("RoundTrip still waiting after %v although the response and EOF were delivered: %v", rt, err)}
	}
	return decodeResult{Outcome: "error", Msg: err.Error()}
}

// saslRawFrames: the raw SASL server token (4-byte length + bytes) and hostile
// lengths.
func saslRawCases() []job {
	token := []byte("server-final-token")
	mk := func(class string, n uint32, payload []byte) job {
		b := make([]byte, 4, 4+len(payload))
		binary.BigEndian.PutUint32(b, n)
		b = append(b, payload...)
		return job{c: mutCase{API: "SaslAuthenticateRaw", Key: -1, Version: 0, Field: 0, Path: "raw.length", Kind: "raw_sasl_size", Off: 0, True: int64(len(token)), Class: class, Raw: uint64(n), Splice: "inplace", Supply: "exact", FrameLen: len(b), StreamHex: hex.EncodeToString(b)}, stream: b}
	}
	var out []job
	for _, v := range []struct {
		class string
		n     uint32
	}{
		{"unmutated", uint32(len(token))}, {"m1", 0xffffffff}, {"zero", 0}, {"one", 1}, {"true_m1", uint32(len(token) - 1)}, {"true_p1", uint32(len(token) + 1)},
		{"i16max", 1<<15 - 1}, {"p2_16", 1 << 16}, {"v65537", 65537}, {"i32max", 1<<31 - 1}, {"i32min", 1 << 31}, {"m2", 0xfffffffe}, {"p2_24", 1 << 24}, {"p2_30", 1 << 30},
	} {
		out = append(out, mk(v.class, v.n, token))
	}
	// only the length, nothing after it
	out = append(out, mk("i32max", 1<<31-1, nil), mk("p2_30", 1<<30, nil))
	return out
}

// transportAPIs is the sample of APIs sent through the Transport.  (CreateTopics
// is left out: after a successful response the Transport waits for the topics
// to show up in the metadata until the context ends.)
var transportAPIs = []int16{18, 3, 10, 1, 0, 2, 11, 14, 9, 12, 20, 16, 22, 42, 17, 36, 15, 8, 13}

// adminAPIs: the transaction and admin APIs that have a Client method (thorough tier).
var adminAPIs = []int16{24, 25, 26, 28, 29, 30, 31, 32, 33, 37, 43, 44, 45, 46, 47, 48, 49, 50, 51}

// TestTransport sends a sample of the frames of TestMutations through
// kafka.Transport.RoundTrip, and the raw SASL response length through both
// saslauthenticate.Request.RawExchange and a Transport configured for SASL
// against a broker that only speaks SaslHandshake v0.
func TestTransport(t *testing.T) {
	if os.Getenv("VERIF_WORKER") == "1" {
		t.Skip("worker")
	}
	thorough := ev.Tier() == "thorough"
	seed := ev.Seed()
	shard, shards := shardOf()
	p := getPool()
	defer recordPoolStats(p)

	entryFor := func(a *refcodec.API, ver int16) string {
		switch {
		case a.Key == 17 && ver == 0:
			return "transport-sasl0"
		case a.Key == 17 || a.Key == 36:
			return "transport-sasl1"
		}
		return "transport"
	}

	apis := transportAPIs
	if thorough {
		apis = append(append([]int16{}, transportAPIs...), adminAPIs...)
	}
	// corpus: one frame per (api, version) of the sample
	var corpus []*corpusFrame
	k := 0
	for _, key := range apis {
		a := refcodec.MustLookup(key)
		vers := versionsFor(a, thorough, seed)
		if a.Key == 18 {
			vers = []int16{0} // the connection's first request is ApiVersions v0
		}
		if a.Key == 36 {
			vers = []int16{1} // v0 handshakes use the raw exchange
		}
		for _, ver := range vers {
			k++
			if k%shards != shard {
				continue
			}
			variant := "rich"
			if a.Key == 1 {
				variant = []string{"fetch-m0", "fetch-m1", "fetch-m2"}[(int(seed)+int(ver))%3]
			}
			cf, err := buildFrame(a, ver, variant, int(seed)*4)
			if err != nil {
				t.Fatalf("harness: corpus %s v%d: %v", a.Name, ver, err)
			}
			corpus = append(corpus, cf)
			if variant == "rich" && clientCall(a.Key) != nil {
				// the same API again with a body that answers what the units ask for (topic t, partition 0, group g, no error codes)
				if cf, err := buildFrame(a, ver, "aligned", int(seed)*4+1); err == nil {
					corpus = append(corpus, cf)
				}
			}
		}
	}

	// unmutated frames: must be served and decoded, within the bound
	reachable := map[*corpusFrame]bool{}
	byCase := map[string]*corpusFrame{}
	for _, cf := range corpus {
		byCase[fmt.Sprintf("%s/%d/%s", cf.API.Name, cf.Ver, cf.Variant)] = cf
	}
	jobs := make(chan job, 16)
	go func() {
		defer close(jobs)
		for _, cf := range corpus {
			c := mutCase{API: cf.API.Name, Key: cf.API.Key, Version: cf.Ver, Entry: entryFor(cf.API, cf.Ver), Variant: cf.Variant, Seed: cf.Seed, Field: -1, Class: "unmutated", Splice: "inplace", Supply: "exact", FrameLen: len(cf.Frame)}
			jobs <- job{c: c, stream: cf.Frame}
			if c.Entry == "transport" && clientCall(c.Key) != nil {
				c.Entry = "client"
				jobs <- job{c: c, stream: cf.Frame}
				if c.Key == 0 {
					c.Entry = "client-raw" // Client.RawProduce: the second produce entry of the Client, with validation of its own
					jobs <- job{c: c, stream: cf.Frame}
				}
			}
		}
		if shard == 0 {
			for _, j := range saslRawCases()[:1] {
				j.c.Entry = "sasl-raw"
				jobs <- j
				j.c.Entry = "transport-sasl0"
				jobs <- j
			}
		}
	}()
	var maxAlloc uint64
	dispatch(p, jobs, func(a answer) {
		c := &a.j.c
		if a.err != nil {
			t.Fatalf("harness: %v", a.err)
		}
		if !evaluate(t, c, a.j.stream, a.r) {
			return
		}
		switch a.r.Outcome {
		case "unserved":
			// the Transport could not route this request with the handler's cluster
			ev.Count("transport_unroutable_"+c.API, 1)
			return
		case "decoded":
		case "error":
			// the Transport applies its own rules to a well-formed response (error codes
			// of generated bodies, e.g. a SASL error code); the frame was decoded
			ev.Count("transport_unmutated_error_"+c.API, 1)
		default:
			t.Fatalf("harness: unmutated %s v%d through %s: outcome %s %s\n%s", c.API, c.Version, c.Entry, a.r.Outcome, a.r.Msg, a.r.Stderr)
		}
		if a.r.Alloc > allocBound(a.r.Consumed)/2 {
			t.Fatalf("harness: unmutated %s v%d through %s allocates %d bytes for %d bytes received: no room to judge mutations", c.API, c.Version, c.Entry, a.r.Alloc, a.r.Consumed)
		}
		if a.r.Alloc > maxAlloc {
			maxAlloc = a.r.Alloc
		}
		if cf := byCase[fmt.Sprintf("%s/%d/%s", c.API, c.Version, c.Variant)]; cf != nil && c.Key >= 0 {
			reachable[cf] = true
		}
		ev.Count("unmutated_frames", 1)
	})
	ev.Note("transport_largest_unmutated_alloc", fmt.Sprint(maxAlloc))

	// mutations: per frame, per field kind at most maxPerKind fields (first,
	// last, then seed-chosen), every value class, exact supply
	maxPerKind := ev.Scale(2, 6)
	jobs = make(chan job, 64)
	go func() {
		defer close(jobs)
		for _, cf := range corpus {
			if !reachable[cf] {
				continue
			}
			perKind := map[string][]int{}
			for fi, f := range cf.Fields {
				if checksummed(f) {
					continue
				}
				perKind[f.Kind] = append(perKind[f.Kind], fi)
			}
			for _, idxs := range perKind {
				pick := map[int]bool{idxs[0]: true, idxs[len(idxs)-1]: true}
				for i := 0; len(pick) < maxPerKind && len(pick) < len(idxs); i++ {
					pick[idxs[(int(seed)*7+i)%len(idxs)]] = true // consecutive from a seeded start: terminates
				}
				for fi := range cf.Fields {
					if !pick[fi] {
						continue
					}
					f := cf.Fields[fi]
					for _, h := range hostileValues(f, len(cf.Frame), false) {
						if h.Overlong == 0 && h.Raw == uint64(f.Value) {
							continue
						}
						splices := []string{"inplace"}
						if f.Varint {
							splices = []string{"adjust", "keep"}
						}
						for _, sp := range splices {
							fr := applyMutation(cf.Frame, f, h, sp == "adjust")
							c := mutCase{API: cf.API.Name, Key: cf.API.Key, Version: cf.Ver, Entry: entryFor(cf.API, cf.Ver), Variant: cf.Variant, Seed: cf.Seed,
								Field: fi, Path: f.Path, Kind: f.Kind, Off: f.Off, True: f.Value, Class: h.Class, Raw: h.Raw, Splice: sp, Supply: "exact", FrameLen: len(fr)}
							jobs <- job{c: c, stream: fr}
							if c.Entry == "transport" && clientCall(c.Key) != nil {
								c.Entry = "client"
								jobs <- job{c: c, stream: fr}
								if c.Key == 0 {
									c.Entry = "client-raw"
									jobs <- job{c: c, stream: fr}
								}
							}
						}
					}
				}
			}
		}
		if shard == 0 {
			for _, j := range saslRawCases()[1:] {
				j.c.Entry = "sasl-raw"
				jobs <- j
				j.c.Entry = "transport-sasl0"
				jobs <- j
			}
		}
	}()
	var frames int64
	t0 := time.Now()
	dispatch(p, jobs, func(a answer) {
		c := &a.j.c
		if a.err != nil {
			t.Fatalf("harness: %v", a.err)
		}
		frames++
		if a.r.Micros > 1000000 {
			ev.Count("transport_slow_cases", 1)
			ev.SampleTagged("transport_slow", 3, map[string]any{"api": c.API, "version": c.Version, "entry": c.Entry, "kind": c.Kind, "class": c.Class, "field": c.Path, "outcome": a.r.Outcome, "msg": a.r.Msg, "micros": a.r.Micros})
		}
		// bytes received = everything the handler delivered on all connections
		supplied := a.j.stream
		if a.r.Consumed > len(supplied) && c.Entry != "sasl-raw" {
			supplied = make([]byte, a.r.Consumed)
		}
		if !evaluate(t, c, supplied, a.r) {
			ev.Count("known_finding_cases", 1)
			return
		}
		if a.r.Outcome == "unserved" {
			ev.Count("transport_unserved", 1)
			return
		}
		ev.Case(fmt.Sprintf("%s/%d/%s/%s/%s", c.API, c.Version, c.Kind, c.Class, c.Entry), a.r.Outcome != "decoded",
			"kind:"+c.Kind, "val:"+c.Class, "entry:"+c.Entry, "splice:"+c.Splice, "out:"+a.r.Outcome)
		ev.Count("api_"+c.API, 1)
		if frames%2000 == 1 {
			ev.Sample(map[string]any{"entry": c.Entry, "api": c.API, "version": c.Version, "field": c.Path, "kind": c.Kind, "class": c.Class, "outcome": a.r.Outcome, "msg": a.r.Msg, "alloc": a.r.Alloc})
		}
	})
	ev.Count("transport_frames", frames)
	t.Logf("%d frames through the Transport / raw SASL in %v", frames, time.Since(t0).Round(time.Millisecond))
}
