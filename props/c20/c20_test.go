// Package c20 decides property C20: malformed length fields from the network
// cannot crash or balloon the client.
//
// Well-formed response frames of every registered API and version (reference
// encoder, with its map of every length / count field) are mutated one field at
// a time with a set of hostile values and decoded in worker processes (see
// worker_test.go).  Outcome "error" or "decoded" is fine; panic, no return, death
// of the worker, or more than 1 MiB + 1024 x (bytes supplied) allocated is a
// failure; so is a decoder that reads past the frame it was given.
package c20

import (
	"encoding/binary"
	"encoding/hex"
	"fmt"
	"os"
	"sort"
	"strconv"
	"strings"
	"sync"
	"testing"
	"time"

	"verif/internal/ev"
	"verif/refcodec"
)

func TestMain(m *testing.M) { ev.Main(m, "C20") }

func TestReplay(t *testing.T) { ev.RunReplay(t) }

// mutCase is the replayable form of one case.  The recipe (corpus frame +
// field + value class + variants) regenerates the bytes; StreamHex carries them
// verbatim when they are short.
type mutCase struct {
	API     string `json:"api"`
	Key     int16  `json:"key"`
	Version int16  `json:"version"`
	Entry   string `json:"entry"` // read | sasl-raw | transport | transport-sasl0 | transport-sasl1
	Variant string `json:"corpus_variant"`
	Seed    int    `json:"corpus_seed"`
	Field   int    `json:"field_index"` // index in the encoder's field map; -1 = unmutated
	Path    string `json:"field_path"`
	Kind    string `json:"field_kind"`
	Off     int    `json:"field_off"`
	True    int64  `json:"true_value"`
	Class   string `json:"value_class"`
	Raw     uint64 `json:"raw_value"`
	Splice  string `json:"splice"` // inplace | adjust | keep (varints: frame size prefix adjusted to the new length or not)
	Supply  string `json:"supply"` // exact | trail | prefix | bigframe
	Obs     bool   `json:"observation_only,omitempty"`
	// filled when the bytes are short enough
	StreamHex string `json:"stream_hex,omitempty"`
	FrameLen  int    `json:"frame_len"` // length of the (mutated) frame inside the stream
}

func init() { ev.Register("mut", runReplayCase) }

var (
	poolOnce sync.Once
	thePool  *pool
)

func workers() int {
	if n, err := strconv.Atoi(os.Getenv("VERIF_C20_WORKERS")); err == nil && n > 0 {
		return n
	}
	if ev.Tier() == "thorough" {
		return 4 // x shards
	}
	return 8
}

func recordPoolStats(p *pool) {
	starts, deaths, restarts := p.stats()
	ev.Count("worker_starts", starts)
	ev.Count("worker_deaths", deaths)
	ev.Count("worker_restarts", restarts)
}

func getPool() *pool {
	poolOnce.Do(func() { thePool = newPool(workers()) })
	return thePool
}

// buildStream regenerates the bytes of a case from its recipe.
func buildStream(c *mutCase) ([]byte, int, error) {
	if c.StreamHex != "" {
		b, err := hex.DecodeString(c.StreamHex)
		return b, c.FrameLen, err
	}
	if c.Key < 0 {
		return nil, 0, fmt.Errorf("raw sasl and consumer-protocol cases carry their bytes")
	}
	a := refcodec.Lookup(c.Key)
	if a == nil {
		return nil, 0, fmt.Errorf("unknown api key %d", c.Key)
	}
	cf, err := frameFromSeed(a, c.Version, c.Variant, c.Seed)
	if err != nil {
		return nil, 0, err
	}
	if c.Field < 0 {
		return supplyStream(cf.Frame, c.Supply, len(cf.Frame)), len(cf.Frame), nil
	}
	if c.Field >= len(cf.Fields) {
		return nil, 0, fmt.Errorf("field index %d outside the field map (%d)", c.Field, len(cf.Fields))
	}
	f := cf.Fields[c.Field]
	var h *hostile
	for _, x := range hostileValues(f, len(cf.Frame), true) {
		if x.Class == c.Class {
			xx := x
			h = &xx
		}
	}
	if h == nil {
		return nil, 0, fmt.Errorf("unknown value class %q", c.Class)
	}
	fr := applyMutation(cf.Frame, f, *h, c.Splice == "adjust")
	end := f.Off + f.Width + (len(fr) - len(cf.Frame))
	return supplyStream(fr, c.Supply, end), len(fr), nil
}

func watchdogFor(entry string) int {
	if isTransportEntry(entry) {
		return 6000
	}
	return 2000
}

// verdict is the oracle's reading of one worker answer.
type verdict struct {
	sig string // "" = fine
	msg string
	// obs: the failure arose inside a decompressor (lengths inside compressed
	// record payloads: covered by the batch / message checksum, outside the
	// statement): recorded as an observation, never a failure
	obs bool
}

func compressedKind(kind string) bool {
	return strings.HasPrefix(kind, "xerial") || strings.HasPrefix(kind, "snappy") || strings.HasPrefix(kind, "codec_header")
}

// judge applies the statement to one answer.  stream is what was supplied.
func judge(c *mutCase, stream []byte, r wres) verdict {
	kind := c.Kind
	if kind == "" {
		kind = "none"
	}
	decomp := r.Decomp != 0
	switch r.Outcome {
	case "decoded", "error", "unserved":
	case "panic":
		// a panic outside the decompressors is a failure even when one ran
		return verdict{fmt.Sprintf("c20/panic/%s/%s", c.API, kind), "decoding panicked: " + r.Msg, inDecompressor(r.Msg)}
	case "timeout":
		return verdict{fmt.Sprintf("c20/timeout/%s/%s", c.API, kind), "decoding did not return: " + r.Msg, decomp}
	case "death":
		return verdict{fmt.Sprintf("c20/death-%s/%s/%s", deathClass(r), c.API, kind), "the worker process died while decoding (" + r.Msg + "):\n" + r.Stderr, r.InDecomp}
	default:
		return verdict{"c20/harness/outcome", "unknown outcome " + r.Outcome + ": " + r.Msg, false}
	}
	if c.Field < 0 && c.Class == "unmutated" {
		// well-formed frames: allocation and extent are validated by the caller as
		// properties of the harness; only a crash is a finding
		return verdict{}
	}
	if b := allocBound(len(stream)); r.Alloc > b {
		return verdict{fmt.Sprintf("c20/alloc/%s/%s/%s", c.API, kind, c.Class),
			fmt.Sprintf("decoding %d supplied bytes allocated %d bytes (bound 1 MiB + 1024 x %d = %d); outcome %s %s", len(stream), r.Alloc, len(stream), b, r.Outcome, r.Msg), decomp}
	}
	// a decoder handed a frame of announced size s must not read past byte 4+s
	if c.Entry == "read" && len(stream) >= 4 {
		if s := int32(binary.BigEndian.Uint32(stream)); s >= 0 && r.Consumed > 4+int(s) {
			return verdict{fmt.Sprintf("c20/overrun/%s/%s", c.API, kind),
				fmt.Sprintf("the frame announces %d bytes but the decoder consumed %d bytes of the stream (%d beyond the frame: bytes of the next response); outcome %s %s", s, r.Consumed, r.Consumed-4-int(s), r.Outcome, r.Msg), false}
		}
	}
	return verdict{}
}

// confirm re-runs a case that killed or stalled a worker alone in a fresh
// worker with a generous watchdog, so that a loaded machine or an unrelated
// death is not attributed to the case.
func confirm(c *mutCase, stream []byte, first wres) (wres, bool) {
	p := newPool(1)
	defer p.Close()
	wd := 10000
	if isTransportEntry(c.Entry) {
		wd = 20000
	}
	r, err := p.Do(wreq{Entry: c.Entry, Key: c.Key, Version: c.Version, StreamHex: hex.EncodeToString(stream), WatchdogMs: wd})
	if err != nil {
		return first, false
	}
	return r, r.Outcome == first.Outcome
}

func withStream(c mutCase, stream []byte) mutCase {
	if len(stream) <= 8192 {
		c.StreamHex = hex.EncodeToString(stream)
	}
	return c
}

// evaluate judges one answer and reports a failure; it returns true when the
// case is fine (or only hit a known finding).
func evaluate(tb ev.TB, c *mutCase, stream []byte, r wres) bool {
	v := judge(c, stream, r)
	if v.sig == "" {
		return true
	}
	if r.Outcome == "timeout" || r.Outcome == "death" {
		r2, same := confirm(c, stream, r)
		if !same {
			ev.Inconclusive(r.Outcome + "-not-reproduced")
			ev.Count("unconfirmed_"+r.Outcome, 1)
			ev.SampleTagged("unconfirmed_"+r.Outcome, 2, map[string]any{"case": withStream(*c, stream), "first": r.Msg, "stderr": firstLines(r.Stderr, 12), "second": r2.Outcome})
			v = judge(c, stream, r2)
			if v.sig == "" {
				return true
			}
		} else {
			v = judge(c, stream, r2)
		}
	}
	if v.obs {
		// inside a decompressor: lengths of the compressed payload, outside the statement
		what := strings.SplitN(v.sig, "/", 3)[1]
		ev.Count("obs_decompressor_"+what, 1)
		ev.SampleTagged("obs_decompressor_"+what, 1, map[string]any{"case": withStream(*c, stream), "codec": codecNames[r.Decomp], "alloc": r.Alloc, "what": firstLines(v.msg, 12)})
		return true
	}
	if c.Obs {
		// checksummed content: outside the statement, kept as an observation
		ev.Count("obs_checksummed_"+strings.SplitN(v.sig, "/", 3)[1], 1)
		ev.SampleTagged("obs_checksummed", 2, map[string]any{"case": withStream(*c, stream), "what": firstLines(v.msg, 12)})
		return true
	}
	if strings.HasPrefix(v.sig, "c20/harness/") {
		tb.Fatalf("harness: %s", v.msg)
	}
	ev.Fail(tb, "mut", v.sig, withStream(*c, stream), "%s v%d %s field %s (%s at offset %d, true value %d) := %s (raw %d) [splice=%s supply=%s, %d bytes supplied]: %s\nstream=%s",
		c.API, c.Version, c.Entry, c.Path, c.Kind, c.Off, c.True, c.Class, c.Raw, c.Splice, c.Supply, len(stream), v.msg, hexHead(stream, 400))
	return false
}

func firstLines(s string, n int) string {
	l := strings.SplitN(s, "\n", n+1)
	if len(l) > n {
		l = l[:n]
	}
	return strings.Join(l, "\n")
}

func hexHead(b []byte, n int) string {
	if len(b) > n {
		return hex.EncodeToString(b[:n]) + fmt.Sprintf("...(%d bytes)", len(b))
	}
	return hex.EncodeToString(b)
}

func runReplayCase(tb ev.TB, c mutCase) {
	stream, _, err := buildStream(&c)
	if err != nil {
		tb.Fatalf("harness: cannot rebuild the case: %v", err)
	}
	p := getPool()
	r, err := p.Do(wreq{Entry: c.Entry, Key: c.Key, Version: c.Version, StreamHex: hex.EncodeToString(stream), WatchdogMs: watchdogFor(c.Entry)})
	if err != nil {
		tb.Fatalf("harness: %v", err)
	}
	tb.Logf("outcome=%s alloc=%d consumed=%d/%d %s", r.Outcome, r.Alloc, r.Consumed, len(stream), r.Msg)
	evaluate(tb, &c, stream, r)
}

// ---------------------------------------------------------------------------
// enumeration

type baseline struct {
	outcome  string
	consumed int
}

type job struct {
	c      mutCase
	stream []byte
	base   *baseline // unmutated frame, same supply mode where that is defined
}

type answer struct {
	j   job
	r   wres
	err error
}

// dispatch runs jobs on the pool with bounded concurrency and hands the
// answers to fn on the calling goroutine (ev.Fail must run there).
func dispatch(p *pool, jobs <-chan job, fn func(a answer)) {
	n := cap(p.free)
	out := make(chan answer, 4*n)
	var wg sync.WaitGroup
	for i := 0; i < n; i++ {
		wg.Add(1)
		go func() {
			defer wg.Done()
			for j := range jobs {
				r, err := p.Do(wreq{Entry: j.c.Entry, Key: j.c.Key, Version: j.c.Version, StreamHex: hex.EncodeToString(j.stream), WatchdogMs: watchdogFor(j.c.Entry)})
				out <- answer{j, r, err}
			}
		}()
	}
	go func() { wg.Wait(); close(out) }()
	for a := range out {
		fn(a)
	}
}

type apiVer struct {
	a   *refcodec.API
	ver int16
}

// versionsFor lists the versions of an API a tier enumerates: thorough all;
// quick the first, the last, both sides of the flexible boundary and one chosen
// by the seed.
func versionsFor(a *refcodec.API, thorough bool, seed int64) []int16 {
	var out []int16
	if thorough {
		for v := a.Min; v <= a.Max; v++ {
			out = append(out, v)
		}
		return out
	}
	set := map[int16]bool{a.Min: true, a.Max: true}
	if a.FlexResp > a.Min && a.FlexResp <= a.Max {
		set[a.FlexResp] = true
		set[a.FlexResp-1] = true
	}
	if n := int64(a.Max-a.Min) + 1; n > 2 {
		set[a.Min+int16((seed+int64(a.Key))%n)] = true
	}
	for v := range set {
		out = append(out, v)
	}
	sort.Slice(out, func(i, j int) bool { return out[i] < out[j] })
	return out
}

func shardOf() (idx, n int) {
	idx, _ = strconv.Atoi(os.Getenv("VERIF_SHARD_INDEX"))
	n, _ = strconv.Atoi(os.Getenv("VERIF_SHARDS"))
	if n < 1 {
		n = 1
	}
	return idx % n, n
}

// bigFieldWanted restricts the fields mutated in the 600-element "big" frames
// to the array's own count and to the elements around the decoder's
// preallocation boundary.
func bigFieldWanted(f refcodec.LenField) bool {
	if !strings.Contains(f.Path, "[") {
		return true // top-level fields, incl. the big array's count
	}
	for _, idx := range []string{"[0]", "[511]", "[512]", "[599]"} {
		if i := strings.Index(f.Path, "["); i >= 0 && strings.HasPrefix(f.Path[i:], idx) {
			// only the first level of nesting inside the element
			return strings.Count(f.Path, "[") <= 2
		}
	}
	return false
}

// sampleFields picks, per field kind, at most n fields of the frame, evenly
// spread (always the first and the last); nil = all.
func sampleFields(cf *corpusFrame, n int) map[int]bool {
	if n <= 0 {
		return nil
	}
	byKind := map[string][]int{}
	for fi, f := range cf.Fields {
		byKind[f.Kind] = append(byKind[f.Kind], fi)
	}
	out := map[int]bool{}
	for _, idxs := range byKind {
		if len(idxs) <= n {
			for _, fi := range idxs {
				out[fi] = true
			}
			continue
		}
		for k := 0; k < n; k++ {
			out[idxs[k*(len(idxs)-1)/(n-1)]] = true
		}
	}
	return out
}

func supplyModes(f refcodec.LenField) [][2]string { // (splice, supply)
	if !f.Varint {
		m := [][2]string{{"inplace", "exact"}, {"inplace", "trail"}, {"inplace", "prefix"}}
		if f.Kind != "frame_size" {
			m = append(m, [2]string{"inplace", "bigframe"})
		}
		return m
	}
	return [][2]string{{"adjust", "exact"}, {"keep", "exact"}, {"adjust", "trail"}, {"keep", "trail"}, {"keep", "prefix"}, {"keep", "bigframe"}}
}

// TestMutations is the enumeration (A)+(B) through protocol.ReadResponse.
func TestMutations(t *testing.T) { enumerate(t, false) }

// TestArrays is the same enumeration restricted to array counts (and the frame
// size); the driver runs it against the `unsafe` build of the protocol package,
// whose array allocation and growth code is separate (reflect_unsafe.go).
func TestArrays(t *testing.T) { enumerate(t, true) }

func enumerate(t *testing.T, onlyArrays bool) {
	if os.Getenv("VERIF_WORKER") == "1" {
		t.Skip("worker")
	}
	thorough := ev.Tier() == "thorough"
	seed := ev.Seed()
	shard, shards := shardOf()
	p := getPool()
	defer recordPoolStats(p)

	// 1. corpus
	var corpus []*corpusFrame
	k := 0
	// frames per (api, version, variant): picked to cover the length fields of the schema
	maxFrames := 2
	if thorough {
		maxFrames = 4
	}
	var slotsSeen, slotsCovered, schemaTotal, schemaMissing int64
	for i := range refcodec.APIs {
		a := &refcodec.APIs[i]
		for _, ver := range versionsFor(a, thorough, seed) {
			k++
			if k%shards != shard {
				continue
			}
			for _, variant := range variantsFor(a) {
				if variant == "big" && !thorough && ver != a.Min && ver != a.Max {
					continue // quick: the 600-element frames only at the first and last version
				}
				fs, seen, covered, err := buildFrames(a, ver, variant, int(seed), maxFrames)
				if err == errNoArray {
					ev.Count("no_big_variant", 1)
					continue
				}
				if err != nil {
					t.Fatalf("harness: corpus %s v%d %s: %v", a.Name, ver, variant, err)
				}
				corpus = append(corpus, fs...)
				if thorough && variant != "big" {
					// a second, independent draw of values and shapes
					if more, _, _, err := buildFrames(a, ver, variant, int(seed)+7919, 2); err == nil {
						corpus = append(corpus, more...)
					}
				}
				if variant != "big" {
					slotsSeen += int64(seen)
					slotsCovered += int64(covered)
					// every length field of the schema must be met by some frame
					have := map[string]bool{}
					for _, cf := range fs {
						for k := range slotsOf(cf.Fields) {
							have[k] = true
						}
					}
					for k := range schemaSlots(a, ver) {
						schemaTotal++
						if !have[k] {
							schemaMissing++
							ev.SampleTagged("schema_field_not_in_corpus", 3, fmt.Sprintf("%s v%d %s: %s", a.Name, ver, variant, k))
						}
					}
				}
			}
		}
	}
	ev.Count("schema_length_fields_seen_in_candidates", slotsSeen)
	ev.Count("schema_length_fields_in_corpus", slotsCovered)
	ev.Count("schema_table_length_fields", schemaTotal)
	ev.Count("schema_table_length_fields_missing_from_corpus", schemaMissing)
	ev.Count("corpus_frames", int64(len(corpus)))

	// 2. the unmutated corpus validates the harness: every frame decodes, is
	// consumed exactly, and stays within the allocation bound
	bases := map[string]*baseline{}
	bkey := func(cf *corpusFrame, supply string) string {
		return fmt.Sprintf("%s/%d/%s/%d/%s", cf.API.Name, cf.Ver, cf.Variant, cf.Seed, supply)
	}
	jobs := make(chan job, 64)
	go func() {
		defer close(jobs)
		for _, cf := range corpus {
			for _, supply := range []string{"exact", "trail"} {
				c := mutCase{API: cf.API.Name, Key: cf.API.Key, Version: cf.Ver, Entry: "read", Variant: cf.Variant, Seed: cf.Seed, Field: -1, Class: "unmutated", Splice: "inplace", Supply: supply, FrameLen: len(cf.Frame)}
				jobs <- job{c: c, stream: supplyStream(cf.Frame, supply, len(cf.Frame))}
			}
		}
	}()
	var maxRatio float64
	var maxRatioWhat string
	dispatch(p, jobs, func(a answer) {
		c := &a.j.c
		if a.err != nil {
			t.Fatalf("harness: %v", a.err)
		}
		if !evaluate(t, c, a.j.stream, a.r) {
			return // a well-formed frame crashed the decoder: reported (known finding)
		}
		if a.r.Outcome != "decoded" {
			t.Fatalf("harness: unmutated %s v%d %s frame (%s): outcome %s %s\n%s\nframe=%s", c.API, c.Version, c.Variant, c.Supply, a.r.Outcome, a.r.Msg, a.r.Stderr, hexHead(a.j.stream, 600))
		}
		if a.r.Consumed != c.FrameLen {
			t.Fatalf("harness: unmutated %s v%d %s frame (%s): consumed %d of a %d byte frame", c.API, c.Version, c.Variant, c.Supply, a.r.Consumed, c.FrameLen)
		}
		if b := allocBound(len(a.j.stream)); a.r.Alloc > b/2 {
			t.Fatalf("harness: unmutated %s v%d %s frame of %d bytes allocates %d bytes, more than half the bound %d: the corpus leaves no room to judge mutations", c.API, c.Version, c.Variant, len(a.j.stream), a.r.Alloc, b)
		}
		if ratio := float64(a.r.Alloc) / float64(len(a.j.stream)); ratio > maxRatio && a.r.Alloc > 256<<10 {
			maxRatio, maxRatioWhat = ratio, fmt.Sprintf("%s v%d %s: %d bytes allocated for a %d byte frame", c.API, c.Version, c.Variant, a.r.Alloc, len(a.j.stream))
		}
		bases[fmt.Sprintf("%s/%d/%s/%d/%s", c.API, c.Version, c.Variant, c.Seed, c.Supply)] = &baseline{a.r.Outcome, a.r.Consumed}
		ev.Count("unmutated_frames", 1)
	})
	if maxRatioWhat != "" {
		ev.Note("largest_unmutated_alloc_ratio", fmt.Sprintf("%.0fx: %s", maxRatio, maxRatioWhat))
	}

	// 3. mutations (quick: at most perKind fields of a kind per frame, evenly
	// spread over the frame; thorough: every field)
	perKind := 0
	if !thorough {
		perKind = 8
	}
	jobs = make(chan job, 256)
	go func() {
		defer close(jobs)
		for _, cf := range corpus {
			wanted := sampleFields(cf, perKind)
			for fi, f := range cf.Fields {
				if cf.Variant == "big" && !bigFieldWanted(f) {
					continue
				}
				if wanted != nil && !wanted[fi] {
					continue
				}
				if onlyArrays && f.Kind != "array" && f.Kind != "compact_array" && f.Kind != "frame_size" {
					continue
				}
				obs := checksummed(f)
				for _, h := range hostileValues(f, len(cf.Frame), thorough) {
					if h.Overlong == 0 && h.Raw == uint64(f.Value) {
						continue // the true value: not a mutation
					}
					if !f.Varint && (f.Width == 2 && uint16(h.Raw) == uint16(f.Value) || f.Width == 4 && uint32(h.Raw) == uint32(f.Value)) {
						continue
					}
					for _, m := range supplyModes(f) {
						if cf.Variant == "big" && (m[1] == "prefix" || m[1] == "bigframe" || m[0] == "keep") && strings.Contains(f.Path, "[") {
							continue // large frames: fewer variants inside the elements
						}
						fr := applyMutation(cf.Frame, f, h, m[0] == "adjust")
						end := f.Off + f.Width + (len(fr) - len(cf.Frame))
						stream := supplyStream(fr, m[1], end)
						if m[1] == "prefix" && len(stream) == len(fr) {
							continue
						}
						c := mutCase{API: cf.API.Name, Key: cf.API.Key, Version: cf.Ver, Entry: "read", Variant: cf.Variant, Seed: cf.Seed,
							Field: fi, Path: f.Path, Kind: f.Kind, Off: f.Off, True: f.Value, Class: h.Class, Raw: h.Raw, Splice: m[0], Supply: m[1], Obs: obs, FrameLen: len(fr)}
						bs := m[1]
						if bs != "trail" {
							bs = "exact"
						}
						jobs <- job{c: c, stream: stream, base: bases[bkey(cf, bs)]}
					}
				}
			}
		}
	}()
	var frames, micros int64
	t0 := time.Now()
	dispatch(p, jobs, func(a answer) {
		c := &a.j.c
		if a.err != nil {
			t.Fatalf("harness: %v", a.err)
		}
		frames++
		micros += a.r.Micros
		if !evaluate(t, c, a.j.stream, a.r) {
			ev.Count("known_finding_cases", 1)
			return
		}
		if c.Obs {
			ev.Count("obs_checksummed_cases", 1)
			return
		}
		// non-trivial: the mutation changed the decode path
		nt := a.j.base == nil || a.r.Outcome != a.j.base.outcome || a.r.Consumed != a.j.base.consumed
		flex := "nonflex"
		if c.Splice != "inplace" {
			flex = "varint"
		}
		ev.Case(fmt.Sprintf("%s/%d/%s/%s", c.API, c.Version, c.Kind, c.Class), nt,
			"kind:"+c.Kind, "val:"+c.Class, "supply:"+c.Supply, "splice:"+c.Splice, "out:"+a.r.Outcome, "enc:"+flex, "corpus:"+c.Variant)
		ev.Count("api_"+c.API, 1)
		if frames%5000 == 1 {
			ev.Sample(map[string]any{"api": c.API, "version": c.Version, "field": c.Path, "kind": c.Kind, "class": c.Class, "splice": c.Splice, "supply": c.Supply, "outcome": a.r.Outcome, "alloc": a.r.Alloc, "consumed": a.r.Consumed, "supplied": len(a.j.stream)})
		}
	})
	ev.Count("mutated_frames", frames)
	ev.Count("decode_micros_total", micros)
	t.Logf("%d mutated frames in %v (shard %d/%d, %d corpus frames)", frames, time.Since(t0).Round(time.Millisecond), shard, shards, len(corpus))
}
