package c20

// Native coverage-guided fuzzing of ReadResponse(apiKey, version, bytes) with
// the same oracle in-process: a panic or an allocation above the bound fails
// the target; a fatal runtime error (out of memory under the address-space
// limit, stack overflow) kills the fuzz worker, which the engine reports with
// the input.

import (
	"encoding/binary"
	"fmt"
	"math"
	"os"
	"runtime"
	"runtime/debug"
	"sync"
	"syscall"
	"testing"

	"verif/internal/ev"
	"verif/refcodec"
)

var fuzzLimit sync.Once

func FuzzReadResponse(f *testing.F) {
	if os.Getenv("VERIF_WORKER") == "1" {
		f.Skip("worker")
	}
	seen := 0
	for i := range refcodec.APIs {
		a := &refcodec.APIs[i]
		for ver := a.Min; ver <= a.Max; ver++ {
			for _, variant := range variantsFor(a) {
				if variant == "big" {
					continue
				}
				cf, err := buildFrame(a, ver, variant, 1)
				if err != nil {
					f.Fatalf("harness: corpus %s v%d %s: %v", a.Name, ver, variant, err)
				}
				f.Add(uint8(i), uint8(ver-a.Min), cf.Frame)
				seen++
				// the hostile constants in the first length field after the header
				if len(cf.Fields) > 1 && ver == a.Max {
					fl := cf.Fields[1]
					for _, h := range hostileValues(fl, len(cf.Frame), false) {
						f.Add(uint8(i), uint8(ver-a.Min), applyMutation(cf.Frame, fl, h, true))
					}
				}
			}
		}
	}
	for _, v := range []uint32{0, 1, 4, 0xffffffff, 0x80000000, math.MaxInt32, 1 << 16, 1<<15 - 1} {
		b := make([]byte, 12)
		binary.BigEndian.PutUint32(b, v)
		binary.BigEndian.PutUint32(b[8:], v)
		f.Add(uint8(3), uint8(1), b)
	}
	f.Fuzz(func(t *testing.T, apiIndex uint8, version uint8, frame []byte) {
		fuzzLimit.Do(func() {
			// make "out of memory" deterministic and harmless for the machine
			lim := syscall.Rlimit{Cur: 6 << 30, Max: 6 << 30}
			syscall.Setrlimit(syscall.RLIMIT_AS, &lim)
			debug.SetMaxStack(workerStack)
			blockCodecs()
		})
		a := &refcodec.APIs[int(apiIndex)%len(refcodec.APIs)]
		ver := a.Min + int16(version)%(a.Max-a.Min+1)
		var m0, m1 runtime.MemStats
		runtime.ReadMemStats(&m0)
		r := decodeRead(a.Key, ver, frame)
		runtime.ReadMemStats(&m1)
		kind := "fuzz"
		fail := func(sig, format string, args ...any) {
			if _, known := ev.IsKnown(sig); known {
				return // a listed finding: keep fuzzing past it
			}
			t.Fatalf("ORACLE-FAIL sig=%s: %s", sig, fmt.Sprintf(format, args...))
		}
		if r.Outcome == "panic" && !inDecompressor(r.Msg) {
			fail(fmt.Sprintf("c20/panic/%s/%s", a.Name, kind), "%s v%d ReadResponse panicked on %d bytes: %s", a.Name, ver, len(frame), r.Msg)
		}
		if alloc, b := m1.TotalAlloc-m0.TotalAlloc, allocBound(len(frame)); alloc > b {
			fail(fmt.Sprintf("c20/alloc/%s/%s/fuzz", a.Name, kind), "%s v%d ReadResponse allocated %d bytes for %d bytes received (bound %d); outcome %s %s", a.Name, ver, alloc, len(frame), b, r.Outcome, r.Msg)
		}
		if len(frame) >= 4 {
			if s := int32(binary.BigEndian.Uint32(frame)); s >= 0 && r.Consumed > 4+int(s) {
				fail(fmt.Sprintf("c20/overrun/%s/%s", a.Name, kind), "%s v%d: frame announces %d bytes, decoder consumed %d", a.Name, ver, s, r.Consumed)
			}
		}
	})
}
