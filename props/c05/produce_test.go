package c05

import (
	"context"
	"errors"
	"fmt"
	"io"
	"math"
	"os"
	"strings"
	"testing"
	"time"

	kafka "github.com/segmentio/kafka-go"
	"github.com/segmentio/kafka-go/compress"
	"github.com/segmentio/kafka-go/protocol"
	"pgregory.net/rapid"

	"verif/fakecluster"
	"verif/internal/ev"
	"verif/memnet"
	"verif/refcodec"
)

// ---------------------------------------------------------------------------
// (A) produce side

type hdrSpec struct {
	Key string    `json:"key"`
	Val bytesSpec `json:"val"`
}

type msgSpec struct {
	Key     bytesSpec `json:"key"`
	Value   bytesSpec `json:"value"`
	Headers []hdrSpec `json:"headers,omitempty"`
	// TimeNs is the message time in Unix nanoseconds; 0 = zero time.Time ("now").
	TimeNs int64 `json:"time_ns"`
}

type produceCase struct {
	Route      string      `json:"route"`       // writer | client | conn
	ProduceMax int16       `json:"produce_max"` // highest produce version the broker advertises
	Codec      int8        `json:"codec"`
	Calls      [][]msgSpec `json:"calls"`      // one WriteMessages / Produce / WriteCompressedMessages call each
	BatchSize  int         `json:"batch_size"` // writer route
	BatchBytes int         `json:"batch_bytes"`
	// client route: 0 = protocol.NewRecordReader + protocol.NewBytes, k>0 = own
	// RecordReader whose Bytes deliver at most k bytes per Read
	ReaderChunk int `json:"reader_chunk"`
	// conn route: use WriteMessages (codec none only) instead of WriteCompressedMessages(nil,...)
	PlainAPI bool `json:"plain_api"`
}

func (m msgSpec) time() time.Time {
	if m.TimeNs == 0 {
		return time.Time{}
	}
	return time.Unix(0, m.TimeNs)
}

func (m msgSpec) message() kafka.Message {
	msg := kafka.Message{Key: m.Key.bytes(), Value: m.Value.bytes(), Time: m.time()}
	for _, h := range m.Headers {
		msg.Headers = append(msg.Headers, kafka.Header{Key: h.Key, Value: h.Val.bytes()})
	}
	return msg
}

// slowBytes is a protocol.Bytes that hands out at most chunk bytes per Read.
type slowBytes struct {
	b     []byte
	chunk int
}

func (s *slowBytes) Len() int { return len(s.b) }
func (s *slowBytes) Read(p []byte) (int, error) {
	if len(s.b) == 0 {
		return 0, io.EOF
	}
	n := s.chunk
	if n > len(p) {
		n = len(p)
	}
	if n > len(s.b) {
		n = len(s.b)
	}
	copy(p, s.b[:n])
	s.b = s.b[n:]
	return n, nil
}
func (s *slowBytes) Close() error { return nil }

// ownReader is a RecordReader written by "the program".
type ownReader struct {
	recs []protocol.Record
	i    int
}

func (r *ownReader) ReadRecord() (*protocol.Record, error) {
	if r.i >= len(r.recs) {
		return nil, io.EOF
	}
	r.i++
	return &r.recs[r.i-1], nil
}

func isTimeout(err error) bool {
	if err == nil {
		return false
	}
	var we kafka.WriteErrors
	if errors.As(err, &we) { // per-message errors of Writer.WriteMessages
		n := 0
		for _, e := range we {
			if e != nil && !isTimeout(e) {
				return false
			}
			if e != nil {
				n++
			}
		}
		return n > 0
	}
	var te interface{ Timeout() bool }
	return errors.Is(err, context.DeadlineExceeded) || errors.Is(err, os.ErrDeadlineExceeded) || (errors.As(err, &te) && te.Timeout())
}

type sentMsg struct {
	spec           msgSpec
	call           int
	startMs, endMs int64 // wall clock around the call (for zero times)
}

func runProduce(tb ev.TB, c produceCase) (labels []string, ok bool) {
	nw := memnet.New()
	cl := fakecluster.New(nw, 1)
	defer cl.Close()
	cl.CreateTopic(topic, 1)
	cl.SetVersions(0, 0, 0, c.ProduceMax)

	fail := func(sig, format string, args ...any) {
		ev.Fail(tb, "produce", sig, c, "route=%s produce<=v%d codec=%s: "+format, append([]any{c.Route, c.ProduceMax, codecNames[c.Codec]}, args...)...)
	}

	var sent []sentMsg
	var callErr error
	callNo := -1
	do := func(i int, f func() error) bool {
		start := msOf(time.Now())
		err := f()
		end := msOf(time.Now())
		for _, m := range c.Calls[i] {
			sent = append(sent, sentMsg{spec: m, call: i, startMs: start, endMs: end})
		}
		if err != nil {
			callErr, callNo = err, i
			return false
		}
		return true
	}
	ctx, cancel := context.WithTimeout(context.Background(), 30*time.Second)
	defer cancel()

	switch c.Route {
	case "writer":
		tr := &kafka.Transport{Dial: nw.Dial, ClientID: "c05"}
		w := &kafka.Writer{Addr: kafka.TCP(brokerAd), Topic: topic, Transport: tr, Balancer: &kafka.RoundRobin{},
			BatchSize: c.BatchSize, BatchBytes: int64(c.BatchBytes), BatchTimeout: time.Millisecond,
			RequiredAcks: kafka.RequireAll, Compression: kafka.Compression(c.Codec), MaxAttempts: 1,
			WriteTimeout: 20 * time.Second, ReadTimeout: 20 * time.Second}
		for i, call := range c.Calls {
			msgs := make([]kafka.Message, len(call))
			for k, m := range call {
				msgs[k] = m.message()
			}
			if !do(i, func() error { return w.WriteMessages(ctx, msgs...) }) {
				break
			}
		}
		w.Close()
		tr.CloseIdleConnections()
	case "client":
		tr := &kafka.Transport{Dial: nw.Dial, ClientID: "c05"}
		client := &kafka.Client{Addr: kafka.TCP(brokerAd), Transport: tr, Timeout: 20 * time.Second}
		for i, call := range c.Calls {
			recs := make([]protocol.Record, len(call))
			for k, m := range call {
				r := protocol.Record{Time: m.time()}
				kb, vb := m.Key.bytes(), m.Value.bytes()
				if c.ReaderChunk > 0 {
					if kb != nil {
						r.Key = &slowBytes{b: kb, chunk: c.ReaderChunk}
					}
					if vb != nil {
						r.Value = &slowBytes{b: vb, chunk: c.ReaderChunk}
					}
				} else {
					r.Key, r.Value = protocol.NewBytes(kb), protocol.NewBytes(vb)
				}
				for _, h := range m.Headers {
					r.Headers = append(r.Headers, protocol.Header{Key: h.Key, Value: h.Val.bytes()})
				}
				recs[k] = r
			}
			var rr protocol.RecordReader
			if c.ReaderChunk > 0 {
				rr = &ownReader{recs: recs}
			} else {
				rr = protocol.NewRecordReader(recs...)
			}
			if !do(i, func() error {
				res, err := client.Produce(ctx, &kafka.ProduceRequest{Topic: topic, Partition: 0, RequiredAcks: kafka.RequireAll, Records: rr, Compression: kafka.Compression(c.Codec)})
				if err != nil {
					return err
				}
				return res.Error
			}) {
				break
			}
		}
		tr.CloseIdleConnections()
	case "conn":
		d := &kafka.Dialer{DialFunc: nw.Dial, Timeout: 10 * time.Second, ClientID: "c05"}
		conn, err := d.DialLeader(ctx, "tcp", brokerAd, topic, 0)
		if err != nil {
			tb.Fatalf("harness: DialLeader: %v", err)
		}
		conn.SetDeadline(time.Now().Add(30 * time.Second))
		for i, call := range c.Calls {
			msgs := make([]kafka.Message, len(call)) // the Conn stamps zero times in place
			for k, m := range call {
				msgs[k] = m.message()
			}
			if !do(i, func() error {
				if c.Codec == 0 && c.PlainAPI {
					_, err := conn.WriteMessages(msgs...)
					return err
				}
				var codec kafka.CompressionCodec
				if c.Codec != 0 {
					codec = compress.Compression(c.Codec).Codec()
				}
				_, err := conn.WriteCompressedMessages(codec, msgs...)
				return err
			}) {
				break
			}
		}
		conn.Close()
	default:
		tb.Fatalf("harness: unknown route %q", c.Route)
	}

	for _, v := range cl.Violations() {
		fail("c05/produce-malformed/"+c.Route, "the reference decoder of the fake broker rejected a request: %s", v)
		return nil, false
	}
	if callErr != nil {
		if isTimeout(callErr) {
			ev.Inconclusive("produce_call_timed_out")
			return nil, false
		}
		sig := "c05/produce-call-error/" + c.Route
		if c.Route == "client" && c.ReaderChunk > 0 && c.Codec == 3 && strings.Contains(callErr.Error(), "lz4: unhandled state") {
			// own Bytes type without io.WriterTo + lz4: io.Copy picks lz4.Writer.ReadFrom, which only works on a fresh writer
			sig = "c05/lz4-readfrom-own-bytes"
		}
		fail(sig, "call #%d with %d valid messages failed on a healthy broker: %v", callNo, len(c.Calls[callNo]), callErr)
		return nil, false
	}

	lab := map[string]bool{"route_" + c.Route: true, "codec_" + codecNames[c.Codec]: true}
	// what reached the wire, in request order
	var wire []refcodec.Record
	nBatches := 0
	wireVersion := int16(-1)
	for _, ex := range cl.Journal() {
		if ex.ApiKey != 0 {
			continue
		}
		wireVersion = ex.Version
		for _, a := range ex.Applied {
			b := a.Batch
			nBatches++
			n := len(b.Records)
			if n == 0 {
				fail("c05/produce-empty-batch/"+c.Route, "produce v%d request seq %d carries a batch without records", ex.Version, ex.Seq)
				return nil, false
			}
			if int(b.Codec) != int(c.Codec) {
				ev.Count("codec_on_wire_differs_from_requested", 1)
			}
			switch {
			case b.Magic == 2:
				for i, r := range b.Records {
					if r.Offset-b.BaseOffset != int64(i) {
						fail("c05/produce-offset-delta/"+c.Route, "produce v%d seq %d: record %d of %d has offset delta %d, want %d", ex.Version, ex.Seq, i, n, r.Offset-b.BaseOffset, i)
						return nil, false
					}
				}
				if int(b.LastOffsetDelta) != n-1 {
					fail("c05/produce-last-offset-delta/"+c.Route, "produce v%d seq %d: lastOffsetDelta %d for %d records, want %d", ex.Version, ex.Seq, b.LastOffsetDelta, n, n-1)
					return nil, false
				}
				mx := int64(math.MinInt64)
				for _, r := range b.Records {
					if r.Timestamp > mx {
						mx = r.Timestamp
					}
				}
				if b.MaxTimestamp != mx { // observation only
					ev.Count("batch_max_timestamp_is_not_the_maximum", 1)
				}
			case b.Codec != 0:
				lab["v1_wrapper"] = true
				if len(b.RawInnerOffsets) != n {
					fail("c05/produce-inner-offsets/"+c.Route, "produce v%d seq %d: wrapper with %d inner offsets for %d records", ex.Version, ex.Seq, len(b.RawInnerOffsets), n)
					return nil, false
				}
				for i, o := range b.RawInnerOffsets {
					if o != int64(i) {
						fail("c05/produce-inner-offsets/"+c.Route, "produce v%d seq %d: inner message %d of the compressed wrapper has offset %d, want the relative offset %d (all: %v)", ex.Version, ex.Seq, i, o, i, b.RawInnerOffsets)
						return nil, false
					}
				}
			}
			lab[fmt.Sprintf("magic_%d", b.Magic)] = true
			wire = append(wire, b.Records...)
		}
	}
	lab[fmt.Sprintf("produce_v%d", wireVersion)] = true
	if len(wire) != len(sent) {
		fail("c05/produce-record-count/"+c.Route, "%d messages were given to the library in %d calls, %d records reached the broker in %d batches", len(sent), len(c.Calls), len(wire), nBatches)
		return nil, false
	}
	magic2 := lab["magic_2"]
	var firstOfCall = map[int]msgSpec{}
	for _, s := range sent {
		if _, ok := firstOfCall[s.call]; !ok {
			firstOfCall[s.call] = s.spec
		}
	}
	for i, s := range sent {
		got := wire[i]
		m := s.spec
		k, v := m.Key.bytes(), m.Value.bytes()
		want := refcodec.Record{Offset: got.Offset, Timestamp: got.Timestamp, Key: k, Value: v, KeyNull: k == nil, ValueNull: v == nil}
		if magic2 {
			for _, h := range m.Headers {
				hv := h.Val.bytes()
				want.Headers = append(want.Headers, refcodec.Header{Key: h.Key, Value: hv, ValueNull: hv == nil})
			}
		} else {
			got.Headers = nil
			if len(m.Headers) > 0 {
				lab["format1_cannot_carry_headers"] = true
			}
		}
		if d := diffRecord(got, want, true); d != "" {
			sig := "c05/produce-content/" + c.Route
			if strings.Contains(d, "null=") {
				sig = "c05/produce-null-vs-empty/" + c.Route
			}
			fail(sig, "message #%d (call %d) differs on the wire: %s", i, s.call, d)
			return nil, false
		}
		// timestamp
		if m.TimeNs == 0 {
			lab["zero_time_now"] = true
			if got.Timestamp < s.startMs || got.Timestamp > s.endMs {
				sig := "c05/produce-timestamp-now/" + c.Route
				if c.Route == "conn" && magic2 {
					// same root causes as below: the delta to the first message is taken from the nanosecond difference
					if base := firstOfCall[s.call]; base.TimeNs != 0 {
						sig = connTimestampSig(got.Timestamp, s.startMs, s.endMs, base.TimeNs, s.startMs*1e6, true)
					}
				}
				fail(sig, "message #%d has a zero Time, the call ran during [%d,%d] ms, the wire timestamp is %d ms", i, s.startMs, s.endMs, got.Timestamp)
				return nil, false
			}
			continue
		}
		wantTs := msOf(m.time())
		if got.Timestamp != wantTs {
			sig := "c05/produce-timestamp/" + c.Route
			base := firstOfCall[s.call]
			baseNs := base.TimeNs
			if c.Route == "conn" && magic2 {
				subMs := baseNs%1e6 != 0 || m.TimeNs%1e6 != 0
				if baseNs == 0 { // stamped with time.Now() by the Conn: nanosecond resolution
					baseNs, subMs = s.startMs*int64(time.Millisecond), true
				}
				sig = connTimestampSig(got.Timestamp, wantTs, wantTs, baseNs, m.TimeNs, subMs)
			}
			fail(sig, "message #%d: Time %s = %d ms (+%d ns), wire timestamp %d ms; first message of the call at %d ms (+%d ns)", i, m.time().UTC().Format(time.RFC3339Nano), wantTs, m.TimeNs-wantTs*1e6, got.Timestamp, msFloor(base.TimeNs), base.TimeNs-msFloor(base.TimeNs)*1e6)
			return nil, false
		}
	}

	// evidence
	nilN, emptyN := 0, 0
	var prev int64
	for i, s := range sent {
		m := s.spec
		for _, b := range []bytesSpec{m.Key, m.Value} {
			if b.Kind == 0 {
				nilN++
			} else if b.Kind == 1 {
				emptyN++
			}
		}
		if m.Value.Len > pageSize {
			lab["value_spans_pages"] = true
		}
		if m.Key.Len > pageSize {
			lab["key_spans_pages"] = true
		}
		if len(m.Headers) > 0 {
			lab["headers"] = true
		}
		for _, h := range m.Headers {
			if h.Key == "" {
				lab["empty_header_key"] = true
			}
			if h.Val.Kind == 0 {
				lab["nil_header_value"] = true
			}
		}
		if m.TimeNs != 0 {
			if m.TimeNs%int64(time.Millisecond) != 0 {
				lab["sub_ms_timestamps"] = true
			}
			if i > 0 && prev != 0 {
				if m.TimeNs < prev {
					lab["non_monotonic_times"] = true
				}
				if d := m.TimeNs - prev; d > int64(30*24*time.Hour) || -d > int64(30*24*time.Hour) {
					lab["times_far_apart"] = true
				}
			}
			prev = m.TimeNs
		}
	}
	if nilN > 0 && emptyN > 0 {
		lab["null_vs_empty"] = true
	}
	if nBatches > 1 {
		lab["multi_batch"] = true
	}
	if c.Route == "client" && c.ReaderChunk > 0 {
		lab["own_record_reader_short_reads"] = true
	}
	if c.Codec != 0 {
		lab["compressed"] = true
	}
	ev.Count("produce_records_checked", int64(len(sent)))
	return sortedKeys(lab), true
}

func msFloor(ns int64) int64 {
	ms := ns / 1e6
	if ns%1e6 < 0 {
		ms--
	}
	return ms
}

// connTimestampSig names the root cause of a wrong record timestamp written by
// Conn.WriteMessages at produce v3/v7 from the INPUT alone: the wire value is
// within +-1 ms of the wanted range and the message or the first message of
// the call has a sub-millisecond part (delta taken from the nanosecond
// difference), or the message is further from the first one than an int32 of
// milliseconds.
func connTimestampSig(got, wantLo, wantHi, baseNs, msgNs int64, baseSubMs bool) string {
	d := msgNs - baseNs
	if d > int64(math.MaxInt32)*1e6 || d < int64(math.MinInt32)*1e6 {
		return "c05/conn-v2-timestamp-delta-clamped"
	}
	if got >= wantLo-1 && got <= wantHi+1 && baseSubMs {
		return "c05/conn-v2-timestamp-delta"
	}
	return "c05/produce-timestamp/conn"
}

// ---------------------------------------------------------------------------
// generator

func genBytesSpec(t *rapid.T, label string, big bool) bytesSpec {
	switch k := rapid.IntRange(0, 9).Draw(t, label+"Kind"); {
	case k == 0:
		return bytesSpec{Kind: 0}
	case k == 1:
		return bytesSpec{Kind: 1}
	case k == 2 && big:
		return bytesSpec{Kind: 2, Len: rapid.SampledFrom(bigLens).Draw(t, label+"Big"), Seed: rapid.IntRange(0, 255).Draw(t, label+"Seed")}
	case k == 3:
		return bytesSpec{Kind: 2, Len: rapid.IntRange(100, 3000).Draw(t, label+"Mid"), Seed: rapid.IntRange(0, 255).Draw(t, label+"Seed")}
	}
	return bytesSpec{Kind: 2, Len: rapid.IntRange(1, 40).Draw(t, label+"Len"), Seed: rapid.IntRange(0, 255).Draw(t, label+"Seed")}
}

const (
	minTimeNs = int64(time.Millisecond) // 1 ms after the epoch: 0 ms means "no timestamp" to the library
	maxTimeNs = int64(7258118400) * 1e9 // 2200-01-01
	year2001  = int64(978307200) * 1e9  // a base for "ordinary" times
	year2033  = int64(1988150400) * 1e9
)

func genProduceCase(t *rapid.T) produceCase {
	c := produceCase{
		Route:      rapid.SampledFrom([]string{"writer", "client", "conn"}).Draw(t, "route"),
		ProduceMax: rapid.SampledFrom([]int16{2, 3, 5, 7, 8}).Draw(t, "produceMax"),
		Codec:      int8(rapid.IntRange(0, 4).Draw(t, "codec")),
	}
	nCalls := rapid.SampledFrom([]int{1, 1, 2, 3}).Draw(t, "nCalls")
	total := rapid.IntRange(1, 40).Draw(t, "nMessages")
	if total > 12 && rapid.IntRange(0, 2).Draw(t, "fewer") > 0 {
		total = 2 + total%6
	}
	// time mode of the case
	mode := rapid.SampledFrom([]string{"subms", "subms", "spread", "far", "zero", "mixed"}).Draw(t, "timeMode")
	baseNs := rapid.Int64Range(year2001, year2033).Draw(t, "baseTime")
	if rapid.Bool().Draw(t, "baseOnWholeMs") {
		baseNs -= baseNs % 1e6
	}
	genTime := func() int64 {
		m := mode
		if m == "mixed" {
			m = rapid.SampledFrom([]string{"subms", "spread", "far", "zero"}).Draw(t, "timeKind")
		}
		switch m {
		case "zero":
			return 0
		case "subms":
			// within a few milliseconds around the base, nanosecond resolution
			return baseNs + rapid.Int64Range(-3e6, 5e6).Draw(t, "nsOffset")
		case "spread":
			return baseNs + rapid.Int64Range(-1000e9, 1000e9).Draw(t, "spreadOffset")
		}
		return rapid.Int64Range(minTimeNs, maxTimeNs).Draw(t, "farTime")
	}
	bigLeft := 0
	if rapid.IntRange(0, 2).Draw(t, "bigCase") == 0 {
		bigLeft = rapid.IntRange(1, 2).Draw(t, "nBig")
	}
	maxMsg := 0
	c.Calls = make([][]msgSpec, nCalls)
	for i := 0; i < total; i++ {
		m := msgSpec{TimeNs: genTime()}
		m.Key = genBytesSpec(t, "key", bigLeft > 0 && rapid.IntRange(0, 3).Draw(t, "bigKey") == 0)
		m.Value = genBytesSpec(t, "val", bigLeft > 0)
		if m.Key.Len >= pageSize-1 || m.Value.Len >= pageSize-1 {
			bigLeft--
		}
		nh := rapid.SampledFrom([]int{0, 0, 0, 1, 2, 3, 4}).Draw(t, "nHeaders")
		for h := 0; h < nh; h++ {
			hs := hdrSpec{Key: rapid.StringMatching(`[a-zé]{0,6}`).Draw(t, "hKey")}
			switch rapid.IntRange(0, 3).Draw(t, "hValKind") {
			case 0:
				hs.Val = bytesSpec{Kind: 0}
			case 1:
				hs.Val = bytesSpec{Kind: 1}
			default:
				hs.Val = bytesSpec{Kind: 2, Len: rapid.IntRange(1, 20).Draw(t, "hLen"), Seed: rapid.IntRange(0, 255).Draw(t, "hSeed")}
			}
			m.Headers = append(m.Headers, hs)
		}
		if sz := m.Key.Len + m.Value.Len + 200; sz > maxMsg {
			maxMsg = sz
		}
		call := 0
		if i >= nCalls { // every call gets at least one message
			call = rapid.IntRange(0, nCalls-1).Draw(t, "call")
		} else {
			call = i
		}
		c.Calls[call] = append(c.Calls[call], m)
	}
	var calls [][]msgSpec
	for _, cs := range c.Calls {
		if len(cs) > 0 {
			calls = append(calls, cs)
		}
	}
	c.Calls = calls
	if rapid.IntRange(0, 5).Draw(t, "pageSweep") == 0 {
		// Fields that the encoder back-patches (sizes, checksums, counts) land on or next to a 64 KiB page boundary of the
		// request buffer when what precedes them ends just below it: a first value of k pages minus 30..170 bytes, then a
		// few small messages in the same request.
		c.Route = rapid.SampledFrom([]string{"writer", "client"}).Draw(t, "sweepRoute")
		c.Codec = 0
		k := rapid.IntRange(1, 2).Draw(t, "sweepPages")
		first := msgSpec{TimeNs: genTime(), Key: bytesSpec{Kind: 0}, Value: bytesSpec{Kind: 2, Len: k*pageSize - rapid.IntRange(30, 170).Draw(t, "sweepBelow"), Seed: rapid.IntRange(0, 255).Draw(t, "sweepSeed")}}
		call := []msgSpec{first}
		for i, n := 0, rapid.IntRange(1, 4).Draw(t, "sweepTail"); i < n; i++ {
			call = append(call, msgSpec{TimeNs: genTime(), Key: bytesSpec{Kind: 2, Len: rapid.IntRange(1, 9).Draw(t, "sweepKeyLen"), Seed: i}, Value: bytesSpec{Kind: 2, Len: rapid.IntRange(1, 40).Draw(t, "sweepValLen"), Seed: i + 7}})
		}
		c.Calls = [][]msgSpec{call}
		maxMsg = first.Value.Len + 200
	}
	switch c.Route {
	case "writer":
		c.BatchSize = rapid.SampledFrom([]int{1, 2, 3, 7, 100}).Draw(t, "batchSize")
		c.BatchBytes = rapid.SampledFrom([]int{1 << 20, 1 << 20, 2000, 300000}).Draw(t, "batchBytes")
		if c.BatchBytes < maxMsg+100 {
			c.BatchBytes = maxMsg + 100 // a message larger than BatchBytes is refused by contract
		}
	case "client":
		c.ReaderChunk = rapid.SampledFrom([]int{0, 0, 1, 7, 4096, 70000}).Draw(t, "readerChunk")
	case "conn":
		c.PlainAPI = rapid.Bool().Draw(t, "plainAPI")
	}
	return c
}

func produceFingerprint(c produceCase, labels []string) string {
	var b strings.Builder
	fmt.Fprintf(&b, "%s v%d c%d bs%d bb%d rc%d p%v|", c.Route, c.ProduceMax, c.Codec, c.BatchSize, c.BatchBytes, c.ReaderChunk, c.PlainAPI)
	for _, call := range c.Calls {
		for _, m := range call {
			tk := "t"
			if m.TimeNs == 0 {
				tk = "z"
			} else if m.TimeNs%1e6 != 0 {
				tk = "s"
			}
			fmt.Fprintf(&b, "%s%s%d%s,", m.Key.class(), m.Value.class(), len(m.Headers), tk)
		}
		b.WriteByte('/')
	}
	fmt.Fprintf(&b, "%v", labels)
	return b.String()
}

func TestProduce(t *testing.T) {
	rapid.Check(t, func(t *rapid.T) {
		c := genProduceCase(t)
		ev.InFlight("produce", c)
		labels, ok := runProduce(t, c)
		if !ok {
			return
		}
		n := 0
		for _, call := range c.Calls {
			n += len(call)
		}
		feature := false
		for _, l := range labels {
			switch l {
			case "compressed", "headers", "null_vs_empty", "value_spans_pages", "key_spans_pages", "sub_ms_timestamps", "multi_batch":
				feature = true
			}
		}
		ev.Case(produceFingerprint(c, labels), n >= 2 && feature, labels...)
		ev.Sample(map[string]any{"unit": "TestProduce", "route": c.Route, "produce_max": c.ProduceMax, "codec": codecNames[c.Codec], "calls": len(c.Calls), "messages": n, "labels": labels, "first_message": c.Calls[0][0]})
	})
}
