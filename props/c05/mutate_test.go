package c05

import (
	"bufio"
	"bytes"
	"encoding/binary"
	"fmt"
	"io"
	"testing"

	"github.com/segmentio/kafka-go/protocol"
	"pgregory.net/rapid"

	"verif/internal/ev"
	"verif/internal/libtypes"
	"verif/internal/logsim"
	"verif/refcodec"
)

// ---------------------------------------------------------------------------
// (D) RecordSet.ReadFrom on reference-encoded-then-mutated record sets

type mutation struct {
	Kind string `json:"kind"` // flip | crc | base | epoch
	Unit int    `json:"unit"` // index mod number of units
	Pos  int    `json:"pos"`  // position inside the mutable region, mod its length
	Bit  int    `json:"bit"`
	Val  int64  `json:"val"`
}

type mutCase struct {
	Batches []refcodec.Batch `json:"batches"`
	Reader  string           `json:"reader"` // bufio | buffer | plain
	Muts    []mutation       `json:"muts"`
	// TruncPerMille > 0 cuts the set to that share of its bytes (a response cut
	// at a byte limit); the size prefix announces the cut length.
	TruncPerMille int `json:"trunc_per_mille"`
	// ShortStream: the size prefix announces the full length but the stream ends
	// at the cut (connection lost); only with the bufio and plain readers.
	ShortStream bool `json:"short_stream"`
}

type span struct{ start, end int }

// frame lists the [start,end) of the units of an intact encoded set.
func frame(enc []byte) []span {
	var out []span
	off := 0
	for len(enc)-off >= 12 {
		size := int(int32(binary.BigEndian.Uint32(enc[off+8 : off+12])))
		out = append(out, span{off, off + 12 + size})
		off += 12 + size
	}
	return out
}

func runMut(tb ev.TB, c mutCase) (labels []string, ok bool) {
	rs := refcodec.RecordSet{Batches: c.Batches}
	enc, err := rs.Encode()
	if err != nil {
		tb.Fatalf("harness: encode: %v", err)
	}
	lab := map[string]bool{"reader_" + c.Reader: true}
	spans := frame(enc)
	for _, m := range c.Muts {
		if len(spans) == 0 {
			break
		}
		sp := spans[m.Unit%len(spans)]
		u := enc[sp.start:sp.end]
		magic := int8(u[16])
		compressed := false
		if magic == 2 {
			compressed = u[22]&7 != 0
		} else {
			compressed = u[17]&7 != 0
		}
		switch m.Kind {
		case "flip":
			// any bit after the offset and size fields; inside compressed units only the
			// fixed header (a decompressor fed damaged data is C16/C20's subject)
			lo, hi := 12, len(u)
			if compressed {
				if magic == 2 {
					hi = 61
				} else {
					hi = 30
				}
			}
			if hi > len(u) {
				hi = len(u)
			}
			p := lo + m.Pos%(hi-lo)
			u[p] ^= 1 << (m.Bit % 8)
			lab["mut_flip"] = true
		case "crc":
			p := 17
			if magic != 2 {
				p = 12
			}
			u[p+m.Pos%4] ^= 1 << (m.Bit % 8)
			lab["mut_crc_field"] = true
		case "base":
			if magic == 2 { // outside the checksum: the batch stays valid, all offsets move
				binary.BigEndian.PutUint64(u[0:8], uint64(m.Val))
				lab["mut_base_offset"] = true
			}
		case "epoch":
			if magic == 2 {
				binary.BigEndian.PutUint32(u[12:16], uint32(m.Val))
				lab["mut_leader_epoch"] = true
			}
		}
	}
	declared := len(enc)
	if c.TruncPerMille > 0 {
		k := len(enc) * c.TruncPerMille / 1000
		enc = enc[:k]
		lab["truncated"] = true
		if c.ShortStream && c.Reader != "buffer" {
			lab["stream_shorter_than_declared"] = true
		} else {
			declared = k
		}
	}
	units := walkUnits(enc)
	var allowed []refcodec.Record
	anyBad := false
	for _, u := range units {
		if u.Bad {
			anyBad = true
			continue
		}
		allowed = append(allowed, u.Records...)
		if u.Control {
			lab["control_batch"] = true
		}
	}
	if anyBad {
		lab["bad_unit"] = true
	}
	wire := append(binary.BigEndian.AppendUint32(nil, uint32(declared)), enc...)
	var rd io.Reader
	switch c.Reader {
	case "bufio":
		rd = bufio.NewReader(bytes.NewReader(wire))
	case "buffer":
		rd = bytes.NewBuffer(wire)
	default:
		rd = plainReader{bytes.NewReader(wire)}
	}
	var lrs protocol.RecordSet
	_, rerr := lrs.ReadFrom(rd)
	var got []refcodec.Record
	var rerr2 error
	if rerr == nil && lrs.Records != nil {
		got, rerr2 = libtypes.ReadAllRecords(lrs.Records)
	}
	fail := func(sig, format string, args ...any) {
		ev.Fail(tb, "mutate", sig, c, "reader=%s set=[%s] muts=%+v trunc=%d/1000 short=%v: "+format, append([]any{c.Reader, layoutSummary(c.Batches), c.Muts, c.TruncPerMille, c.ShortStream}, args...)...)
	}
	shortStream := lab["stream_shorter_than_declared"]
	for i, g := range got {
		if i >= len(allowed) {
			sig := "c05/fetch-extra/readfrom"
			if anyBad {
				sig = "c05/crc-mismatch-surfaced"
			}
			fail(sig, "ReadFrom surfaced %d records, the intact batches hold %d (extra: offset %d key %s)", len(got), len(allowed), g.Offset, short(g.Key))
			return nil, false
		}
		if d := diffRecord(g, allowed[i], true); d != "" {
			sig := sigFor(d, "readfrom", nil)
			if anyBad {
				sig = "c05/crc-mismatch-surfaced"
			}
			fail(sig, "record #%d: %s", i, d)
			return nil, false
		}
	}
	if !anyBad && !shortStream {
		// a valid sequence of batches (possibly cut at a byte limit): everything must come out
		if e := firstErr(rerr, rerr2); e != nil && len(allowed) > 0 {
			fail("c05/fetch-error/readfrom", "ReadFrom failed on %d valid batches: %v", len(units), e)
			return nil, false
		}
		if len(got) != len(allowed) {
			fail("c05/fetch-missing/readfrom", "ReadFrom yielded %d records, the %d whole valid batches hold %d", len(got), len(units), len(allowed))
			return nil, false
		}
	}
	if firstErr(rerr, rerr2) != nil {
		lab["decode_error"] = true
	}
	if anyBad && len(got) > 0 {
		lab["prefix_before_bad_batch"] = true
	}
	for _, u := range units {
		if u.Magic >= 0 && u.Magic <= 2 {
			lab[fmt.Sprintf("magic_%d", u.Magic)] = true
		} else {
			lab["magic_byte_damaged"] = true
		}
	}
	return sortedKeys(lab), true
}

func genMutCase(t *rapid.T) mutCase {
	o := logsim.Opts{MaxMagic: 2, MinMagic: int8(rapid.IntRange(0, 2).Draw(t, "minMagic")), MaxRecords: 12, MaxPerBatch: 4, Holes: true, EmptyBatch: true, Control: true,
		Big: rapid.IntRange(0, 9).Draw(t, "big") == 0, Start: int64(rapid.SampledFrom([]int{0, 5, 1 << 33}).Draw(t, "base"))}
	l := logsim.Gen(t, o)
	if rapid.IntRange(0, 7).Draw(t, "injectBig") == 0 {
		injectBig(t, l.Batches)
	}
	c := mutCase{Batches: l.Batches, Reader: rapid.SampledFrom([]string{"bufio", "bufio", "buffer", "plain"}).Draw(t, "reader")}
	nm := rapid.SampledFrom([]int{0, 1, 1, 1, 2, 3}).Draw(t, "nMuts")
	for i := 0; i < nm; i++ {
		m := mutation{Kind: rapid.SampledFrom([]string{"flip", "flip", "flip", "crc", "base", "epoch"}).Draw(t, "kind"),
			Unit: rapid.IntRange(0, 40).Draw(t, "unit"), Pos: rapid.IntRange(0, 1<<20).Draw(t, "pos"), Bit: rapid.IntRange(0, 7).Draw(t, "bit")}
		if m.Kind == "base" || m.Kind == "epoch" {
			m.Val = rapid.Int64Range(0, 1<<40).Draw(t, "val")
		}
		c.Muts = append(c.Muts, m)
	}
	if rapid.IntRange(0, 3).Draw(t, "truncate") == 0 {
		c.TruncPerMille = rapid.IntRange(1, 999).Draw(t, "truncAt")
		c.ShortStream = rapid.IntRange(0, 3).Draw(t, "shortStream") == 0
	}
	return c
}

func mutProperty(t *rapid.T) {
	c := genMutCase(t)
	labels, ok := runMut(t, c)
	if !ok {
		return
	}
	n := len(logsim.Model(c.Batches))
	ev.Case(fmt.Sprintf("%s [%s] %+v %d %v", c.Reader, layoutSummary(c.Batches), c.Muts, c.TruncPerMille, c.ShortStream), n >= 2 && (len(c.Muts) > 0 || c.TruncPerMille > 0 || len(c.Batches) > 1), labels...)
	ev.Sample(map[string]any{"unit": "TestMutatedSets", "reader": c.Reader, "set": layoutSummary(c.Batches), "muts": c.Muts, "trunc_per_mille": c.TruncPerMille, "labels": labels})
}

func TestMutatedSets(t *testing.T) { rapid.Check(t, mutProperty) }

func FuzzRecordSetReadFrom(f *testing.F) {
	f.Add([]byte{0})
	f.Add([]byte("record batches: what is produced is exactly what a consumer decodes"))
	f.Add(bytes.Repeat([]byte{0xff, 0x01, 0x80, 0x7f}, 64))
	f.Add(bytes.Repeat([]byte{0x55, 0xaa, 0x00, 0x13, 0x37}, 100))
	f.Fuzz(rapid.MakeFuzz(mutProperty))
}
