package c05

import (
	"context"
	"errors"
	"fmt"
	"strings"
	"testing"
	"time"

	kafka "github.com/segmentio/kafka-go"
	"pgregory.net/rapid"

	"verif/fakecluster"
	"verif/internal/ev"
	"verif/internal/libtypes"
	"verif/internal/logsim"
	"verif/memnet"
	"verif/refcodec"
)

// ---------------------------------------------------------------------------
// (B) fetch side

type fetchCase struct {
	Path     string        `json:"path"` // client | conn | reader
	FetchMax int16         `json:"fetch_max"`
	Layout   logsim.Layout `json:"layout"`
	LogStart int64         `json:"log_start"`
	Start    int64         `json:"start"`
	MaxBytes int           `json:"max_bytes"`
}

// lastFetchRaw returns the record set bytes of the newest answered fetch
// request with a sequence number above seq0.
func lastFetchRaw(cl *fakecluster.Cluster, seq0 int64) ([]byte, int16, bool) {
	j := cl.Journal()
	for i := len(j) - 1; i >= 0; i-- {
		ex := j[i]
		if ex.Seq <= seq0 {
			break
		}
		if ex.ApiKey != 1 || ex.RespBody == nil {
			continue
		}
		ts, _ := ex.RespBody["Topics"].([]any)
		if len(ts) == 0 {
			continue
		}
		ps, _ := ts[0].(map[string]any)["Partitions"].([]any)
		if len(ps) == 0 {
			continue
		}
		rs, _ := ps[0].(map[string]any)["RecordSet"].(*refcodec.RecordSet)
		if rs == nil {
			return nil, ex.Version, true
		}
		return rs.Raw, ex.Version, true
	}
	return nil, 0, false
}

// stored lists the model records from off on as a broker serves them at the
// fetch version ceiling: below v4 format-2 batches are down-converted to
// format 1, which has no headers.
func stored(cl *fakecluster.Cluster, off int64, fetchMax int16) []refcodec.Record {
	out := fromOffset(cl.Records(topic, 0), off)
	if fetchMax < 4 {
		for i := range out {
			out[i].Headers = nil
		}
	}
	return out
}

func fromOffset(recs []refcodec.Record, off int64) []refcodec.Record {
	var out []refcodec.Record
	for _, r := range recs {
		if r.Offset >= off {
			out = append(out, r)
		}
	}
	return out
}

func msgToRecord(m kafka.Message) refcodec.Record {
	r := refcodec.Record{Offset: m.Offset, Key: m.Key, Value: m.Value, KeyNull: m.Key == nil, ValueNull: m.Value == nil}
	if !m.Time.IsZero() {
		r.Timestamp = msOf(m.Time)
	}
	for _, h := range m.Headers {
		r.Headers = append(r.Headers, refcodec.Header{Key: h.Key, Value: h.Value, ValueNull: h.Value == nil})
	}
	return r
}

func runFetch(tb ev.TB, c fetchCase) (labels []string, ok bool) {
	nw := memnet.New()
	cl := fakecluster.New(nw, 1)
	defer cl.Close()
	cl.CreateTopic(topic, 1)
	cl.SetVersions(0, 1, 0, c.FetchMax)
	cl.AppendBatches(topic, 0, c.Layout.Batches...)
	first := c.LogStart
	end := logsim.End(c.Layout.Batches)
	cl.SetLogRange(topic, 0, first, end)
	lab := map[string]bool{"path_" + c.Path: true}
	for _, l := range c.Layout.Labels {
		lab[l] = true
	}
	for _, b := range c.Layout.Batches {
		lab[fmt.Sprintf("stored_magic_%d", b.Magic)] = true
		if len(b.Records) > 0 {
			lab["stored_codec_"+codecNames[b.Codec]] = true
		}
		for _, r := range b.Records {
			if (r.KeyNull || r.ValueNull) && !b.Control {
				lab["has_null"] = true
			}
			if (!r.KeyNull && len(r.Key) == 0) || (!r.ValueNull && len(r.Value) == 0) {
				lab["has_empty"] = true
			}
			if len(r.Headers) > 0 {
				lab["headers"] = true
			}
			if len(r.Value) > pageSize {
				lab["value_spans_pages"] = true
			}
			if len(r.Key) > pageSize {
				lab["key_spans_pages"] = true
			}
		}
	}
	if lab["has_null"] && lab["has_empty"] {
		lab["null_vs_empty"] = true
	}
	delete(lab, "has_null")
	delete(lab, "has_empty")
	fail := func(sig, format string, args ...any) {
		ev.Fail(tb, "fetch", sig, c, "path=%s fetch<=v%d start=%d maxBytes=%d log=[%s]: "+format, append([]any{c.Path, c.FetchMax, c.Start, c.MaxBytes, layoutSummary(c.Layout.Batches)}, args...)...)
	}
	checked := 0
	switch c.Path {
	case "client":
		tr := &kafka.Transport{Dial: nw.Dial, ClientID: "c05"}
		defer tr.CloseIdleConnections()
		client := &kafka.Client{Addr: kafka.TCP(brokerAd), Transport: tr, Timeout: 20 * time.Second}
		next := c.Start
		responses := 0
		for iter := 0; next < end; iter++ {
			if iter > 4*len(c.Layout.Batches)+200 {
				tb.Fatalf("harness: the client fetch loop does not advance (next=%d end=%d)", next, end)
			}
			seq0 := cl.Seq()
			ctx, cancel := context.WithTimeout(context.Background(), 20*time.Second)
			res, err := client.Fetch(ctx, &kafka.FetchRequest{Topic: topic, Partition: 0, Offset: next, MinBytes: 1, MaxBytes: int64(c.MaxBytes), MaxWait: 200 * time.Millisecond})
			cancel()
			raw, ver, found := lastFetchRaw(cl, seq0)
			if !found {
				if err != nil && isTimeout(err) {
					ev.Inconclusive("fetch_timed_out")
					return nil, false
				}
				tb.Fatalf("harness: no fetch exchange in the journal after Client.Fetch (err=%v)", err)
			}
			lab[fmt.Sprintf("fetch_v%d", ver)] = true
			units := walkUnits(raw)
			if len(units) == 0 {
				tb.Fatalf("harness: the fake returned no whole batch for offset %d (end %d, %d raw bytes)", next, end, len(raw))
			}
			responses++
			if len(units) > 1 {
				lab["several_batches_per_response"] = true
			}
			if tot := 0; true {
				for _, u := range units {
					tot += len(u.Raw)
				}
				if tot < len(raw) {
					lab["partial_trailing_batch"] = true
				}
			}
			var before, after []refcodec.Record
			firstBad := -1
			hasControl := false
			for i, u := range units {
				switch {
				case u.Bad:
					if firstBad < 0 {
						firstBad = i
					}
				case u.Control:
					hasControl = true
				case firstBad < 0:
					before = append(before, u.Records...)
				default:
					after = append(after, u.Records...)
				}
				if u.Magic <= 1 && len(u.Records) > 1 {
					lab["v1_wrapper"] = true
				}
			}
			// a compacted format-1 wrapper in the response: the known mis-numbering of its
			// records also shifts which records pass the offset filter, so every record
			// difference in such a response is attributed to it
			respSparse := false
			for _, u := range units {
				if n := len(u.Records); u.Magic <= 1 && n > 1 && u.Records[n-1].Offset-u.Records[0].Offset != int64(n-1) {
					respSparse = true
				}
			}
			fail := func(sig, format string, args ...any) {
				if respSparse && (strings.HasPrefix(sig, "c05/fetch-") && !strings.HasPrefix(sig, "c05/fetch-error")) {
					sig = "c05/v1-wrapper-sparse-offsets"
				}
				fail(sig, format, args...)
			}
			if firstBad >= 0 && !hasCorrupt(c.Layout.Batches) {
				tb.Fatalf("harness: the reference decoder rejects a served batch although none was corrupted: %s", units[firstBad].BadWhy)
			}
			var got []refcodec.Record
			var rerr error
			if err == nil {
				if res.Error != nil {
					fail("c05/fetch-error/client", "Client.Fetch(offset %d) returned a broker error the fake did not send: %v", next, res.Error)
					return nil, false
				}
				got, rerr = libtypes.ReadAllRecords(res.Records)
			}
			if e := firstErr(err, rerr); e != nil {
				if isTimeout(e) {
					ev.Inconclusive("fetch_timed_out")
					return nil, false
				}
				if firstBad < 0 {
					fail("c05/fetch-error/client", "Client.Fetch(offset %d) failed on a response of %d valid batches: %v", next, len(units), e)
					return nil, false
				}
				lab["corrupt_batch_reported_as_error"] = true
			}
			got = fromOffset(got, next)
			want := fromOffset(before, next)
			// every record of the batches before a corrupt one, then optionally records of intact batches after it
			for i, w := range want {
				if i >= len(got) {
					if firstBad >= 0 {
						// the response holds a corrupt batch: it may be rejected as a whole or in part;
						// what the statement forbids is surfacing a record of the corrupt batch
						lab["only_a_prefix_before_corrupt_batch"] = true
						break
					}
					fail("c05/fetch-missing/client", "Client.Fetch(offset %d) returned %d records from offset %d on, the response holds %d (first missing: offset %d)", next, len(got), next, len(want), w.Offset)
					return nil, false
				}
				if d := diffRecord(got[i], w, true); d != "" {
					sig := sigFor(d, "client", units)
					if isControlRecord(c.Layout.Batches, got[i].Offset) {
						sig = "c05/control-batch-surfaced"
					} else if isRecordOfBad(units, got[i], c.Layout.Batches) {
						sig = "c05/crc-mismatch-surfaced"
					}
					fail(sig, "Client.Fetch(offset %d), record #%d: %s", next, i, d)
					return nil, false
				}
			}
			if len(got) > len(want) {
				extra := got[len(want):]
				allowed := fromOffset(after, next)
				for i, g := range extra {
					if i >= len(allowed) {
						sig := "c05/fetch-extra/client"
						what := "not in the response"
						if isRecordOfBad(units, g, c.Layout.Batches) {
							sig, what = "c05/crc-mismatch-surfaced", "of a batch whose checksum does not match"
						} else if isControlRecord(c.Layout.Batches, g.Offset) {
							sig, what = "c05/control-batch-surfaced", "of a control batch"
						}
						fail(sig, "Client.Fetch(offset %d) surfaced a record %s: offset %d key %s", next, what, g.Offset, short(g.Key))
						return nil, false
					}
					if d := diffRecord(g, allowed[i], true); d != "" {
						sig := sigFor(d, "client", units)
						if isRecordOfBad(units, g, c.Layout.Batches) {
							sig = "c05/crc-mismatch-surfaced"
						} else if isControlRecord(c.Layout.Batches, g.Offset) {
							sig = "c05/control-batch-surfaced"
						}
						fail(sig, "Client.Fetch(offset %d), record #%d after the valid prefix: %s", next, len(want)+i, d)
						return nil, false
					}
				}
			}
			checked += len(got)
			if hasControl {
				lab["control_batch_hidden"] = true
			}
			if firstBad >= 0 {
				lab["crc_mismatch_hidden"] = true
				next = units[firstBad].End
			} else {
				next = units[len(units)-1].End
			}
		}
		if responses > 1 {
			lab["several_responses"] = true
		}
	case "conn":
		d := &kafka.Dialer{DialFunc: nw.Dial, Timeout: 10 * time.Second, ClientID: "c05"}
		ctx, cancel := context.WithTimeout(context.Background(), 20*time.Second)
		conn, err := d.DialLeader(ctx, "tcp", brokerAd, topic, 0)
		cancel()
		if err != nil {
			tb.Fatalf("harness: DialLeader: %v", err)
		}
		defer conn.Close()
		if _, err := conn.Seek(c.Start, kafka.SeekAbsolute); err != nil {
			tb.Fatalf("harness: Seek(%d): %v", c.Start, err)
		}
		want := stored(cl, c.Start, c.FetchMax)
		idx := 0
		for iter := 0; idx < len(want); iter++ {
			if iter > 3*len(want)+3*len(c.Layout.Batches)+20 {
				fail("c05/conn-stalled", "Conn.ReadBatch delivered %d of the %d stored records from offset %d on and then nothing more in %d batches", idx, len(want), c.Start, iter)
				return nil, false
			}
			conn.SetReadDeadline(time.Now().Add(10 * time.Second))
			b := conn.ReadBatchWith(kafka.ReadBatchConfig{MinBytes: 1, MaxBytes: c.MaxBytes, MaxWait: 200 * time.Millisecond})
			n := 0
			for {
				m, err := b.ReadMessage()
				if err != nil {
					break
				}
				n++
				if idx >= len(want) {
					fail("c05/fetch-extra/conn", "Conn delivered offset %d after all %d stored records", m.Offset, len(want))
					b.Close()
					return nil, false
				}
				if d := diffRecord(msgToRecord(m), want[idx], false); d != "" {
					fail(sigFor(d, "conn", nil), "Conn.ReadBatch message #%d: %s", idx, d)
					b.Close()
					return nil, false
				}
				idx++
			}
			if n > 1 {
				lab["several_messages_per_fetch"] = true
			}
			if err := b.Close(); err != nil {
				if isTimeout(err) || errors.Is(err, kafka.RequestTimedOut) {
					ev.Inconclusive("conn_read_timed_out")
					return nil, false
				}
				fail("c05/fetch-error/conn", "Batch.Close after %d of %d records: %v", idx, len(want), err)
				return nil, false
			}
		}
		checked = idx
		for _, ex := range cl.Journal() {
			if ex.ApiKey == 1 {
				lab[fmt.Sprintf("fetch_v%d", ex.Version)] = true
			}
		}
	case "reader":
		d := &kafka.Dialer{DialFunc: nw.Dial, Timeout: 10 * time.Second, ClientID: "c05"}
		r := kafka.NewReader(kafka.ReaderConfig{Brokers: []string{brokerAd}, Topic: topic, Partition: 0, Dialer: d, MinBytes: 1, MaxBytes: c.MaxBytes,
			MaxWait: 150 * time.Millisecond, ReadBackoffMin: time.Millisecond, ReadBackoffMax: 5 * time.Millisecond, ReadLagInterval: -1, MaxAttempts: 3, ReadBatchTimeout: 5 * time.Second})
		defer r.Close()
		if err := r.SetOffset(c.Start); err != nil {
			tb.Fatalf("harness: SetOffset: %v", err)
		}
		want := stored(cl, c.Start, c.FetchMax)
		for idx, w := range want {
			ctx, cancel := context.WithTimeout(context.Background(), 15*time.Second)
			m, err := r.FetchMessage(ctx)
			cancel()
			if err != nil {
				if isTimeout(err) {
					// delivery/liveness of the Reader is C02's; here only what is decoded counts
					ev.Inconclusive("reader_delivery_timed_out")
					return nil, false
				}
				fail("c05/fetch-error/reader", "FetchMessage #%d: %v", idx, err)
				return nil, false
			}
			if d := diffRecord(msgToRecord(m), w, false); d != "" {
				fail(sigFor(d, "reader", nil), "Reader message #%d: %s", idx, d)
				return nil, false
			}
		}
		checked = len(want)
		for _, ex := range cl.Journal() {
			if ex.ApiKey == 1 {
				lab[fmt.Sprintf("fetch_v%d", ex.Version)] = true
			}
		}
	default:
		tb.Fatalf("harness: unknown path %q", c.Path)
	}
	for _, v := range cl.Violations() {
		fail("c05/fetch-malformed-request", "the fake broker rejected a request: %s", v)
		return nil, false
	}
	if c.Start > first {
		lab["start_inside_log"] = true
	}
	ev.Count("fetch_records_checked", int64(checked))
	return sortedKeys(lab), true
}

func firstErr(errs ...error) error {
	for _, e := range errs {
		if e != nil {
			return e
		}
	}
	return nil
}

func hasCorrupt(bs []refcodec.Batch) bool {
	for _, b := range bs {
		if b.CorruptCRC {
			return true
		}
	}
	return false
}

// sigFor names the class of a record difference.
func sigFor(d, path string, _ []unit) string {
	switch {
	case strings.Contains(d, "null="):
		return "c05/fetch-null-vs-empty/" + path
	case strings.HasPrefix(d, "offset ") && strings.Contains(d, ", model ") && !strings.Contains(d, ":"):
		return "c05/fetch-offset/" + path
	case strings.Contains(d, "timestamp"):
		return "c05/fetch-timestamp/" + path
	case strings.Contains(d, "header"):
		return "c05/fetch-headers/" + path
	}
	return "c05/fetch-content/" + path
}

// isRecordOfBad reports whether g has the offset of a record stored in a batch
// that was served with a corrupted checksum.
func isRecordOfBad(units []unit, g refcodec.Record, batches []refcodec.Batch) bool {
	for _, b := range batches {
		if !b.CorruptCRC {
			continue
		}
		for _, r := range b.Records {
			if r.Offset == g.Offset {
				return true
			}
		}
	}
	return false
}

func isControlRecord(batches []refcodec.Batch, off int64) bool {
	for _, b := range batches {
		if !b.Control {
			continue
		}
		for _, r := range b.Records {
			if r.Offset == off {
				return true
			}
		}
	}
	return false
}

// ---------------------------------------------------------------------------
// generator

func controlBatch(off int64) refcodec.Batch {
	return refcodec.Batch{Magic: 2, BaseOffset: off, FirstTimestamp: 5, MaxTimestamp: 5, ProducerID: 7, ProducerEpoch: 0, BaseSequence: -1, Control: true, Transactional: true,
		Records: []refcodec.Record{{Offset: off, Timestamp: 5, Key: []byte{0, 0, 0, 1}, Value: []byte{0, 0, 0, 0, 0, 0}}}}
}

func genFetchCase(t *rapid.T) fetchCase {
	c := fetchCase{Path: rapid.SampledFrom([]string{"client", "client", "client", "client", "conn", "conn", "reader"}).Draw(t, "path")}
	if c.Path == "client" {
		c.FetchMax = rapid.SampledFrom([]int16{2, 3, 4, 5, 7, 10, 11, 11}).Draw(t, "fetchMax")
	} else {
		c.FetchMax = rapid.SampledFrom([]int16{2, 5, 10, 11}).Draw(t, "fetchMax")
	}
	o := logsim.Opts{MaxMagic: 2, MaxRecords: 30, MaxPerBatch: 6, Holes: true,
		Big:   rapid.IntRange(0, 5).Draw(t, "big") == 0,
		Start: int64(rapid.SampledFrom([]int{0, 0, 3, 1000}).Draw(t, "logBase"))}
	if c.FetchMax < 4 {
		if rapid.IntRange(0, 3).Draw(t, "downConvert") > 0 {
			o.MaxMagic = 1
		} else {
			// the broker down-converts format 2 for the old fetch version; the reference
			// encoder writes contiguous relative inner offsets, so no compaction holes here
			o.Holes = false
		}
	}
	o.MinMagic = int8(rapid.IntRange(0, int(o.MaxMagic)).Draw(t, "minMagic"))
	client := c.Path == "client"
	if client && c.FetchMax >= 4 {
		o.Control = true
		o.EmptyBatch = true
	}
	// force one codec for all batches in most cases so that every codec is certain to occur
	if k := rapid.IntRange(0, 6).Draw(t, "codecMode"); k < 5 {
		o.Codecs = []int8{int8(k)}
	}
	l := logsim.Gen(t, o)
	feature := rapid.IntRange(0, 5).Draw(t, "feature")
	if client && c.FetchMax >= 4 && (feature == 0 || feature == 1) {
		// a control batch between two data batches
		l.Batches = append(l.Batches, controlBatch(l.End))
		o2 := o
		o2.Start, o2.MaxRecords, o2.MinMagic, o2.Control, o2.EmptyBatch = l.End+1, 6, 2, false, false
		l2 := logsim.Gen(t, o2)
		l.Batches = append(l.Batches, l2.Batches...)
		l.Labels = append(l.Labels, "control_batch")
	}
	if client && (feature == 1 || feature == 2) {
		// corrupt the checksum of one data batch
		var idx []int
		for i, b := range l.Batches {
			if !b.Control && len(b.Records) > 0 {
				idx = append(idx, i)
			}
		}
		if len(idx) > 0 {
			i := idx[rapid.IntRange(0, len(idx)-1).Draw(t, "corruptBatch")]
			l.Batches[i].CorruptCRC = true
			l.Labels = append(l.Labels, "corrupt_batch")
		}
	}
	if rapid.IntRange(0, 3).Draw(t, "injectBig") == 0 {
		injectBig(t, l.Batches)
	}
	if feature == 3 || feature == 4 {
		// a format-1 wrapper after log compaction: records removed from the middle, the
		// relative inner offsets keep the holes, the wrapper has the last absolute offset
		var idx []int
		for i, b := range l.Batches {
			if b.Magic == 1 && b.Codec != 0 && len(b.Records) >= 3 {
				idx = append(idx, i)
			}
		}
		if len(idx) > 0 {
			i := idx[rapid.IntRange(0, len(idx)-1).Draw(t, "compactedWrapper")]
			recs := l.Batches[i].Records
			kept := []refcodec.Record{recs[0]}
			removed := 0
			for j := 1; j < len(recs)-1; j++ {
				if removed == 0 && j == len(recs)-2 || rapid.Bool().Draw(t, "cleaned") {
					removed++
					continue
				}
				kept = append(kept, recs[j])
			}
			kept = append(kept, recs[len(recs)-1])
			if len(kept) >= 2 && rapid.Bool().Draw(t, "firstCleanedToo") {
				// the first record went as well: the others keep their distance to the original first offset
				l.Batches[i].SparseShift = kept[1].Offset - kept[0].Offset
				kept = kept[1:]
				l.Labels = append(l.Labels, "v1_wrapper_first_record_compacted")
			}
			l.Batches[i].Records = kept
			l.Batches[i].SparseInner = true
			l.Labels = append(l.Labels, "v1_wrapper_compacted")
		}
	}
	l.Records = logsim.Model(l.Batches)
	l.End = logsim.End(l.Batches)
	c.Layout = l
	c.LogStart = o.Start
	if rapid.Bool().Draw(t, "fromStart") {
		c.Start = o.Start
	} else {
		c.Start = o.Start + int64(rapid.IntRange(0, int(l.End-o.Start)).Draw(t, "start"))
	}
	switch rapid.IntRange(0, 4).Draw(t, "maxBytesKind") {
	case 0:
		c.MaxBytes = rapid.IntRange(1, 200).Draw(t, "maxBytesTiny")
	case 1:
		c.MaxBytes = rapid.IntRange(200, 5000).Draw(t, "maxBytesSmall")
	default:
		c.MaxBytes = 1 << 20
	}
	return c
}

func TestFetch(t *testing.T) {
	rapid.Check(t, func(t *rapid.T) {
		c := genFetchCase(t)
		ev.InFlight("fetch", c)
		labels, ok := runFetch(t, c)
		if !ok {
			return
		}
		feature := false
		for _, l := range labels {
			switch l {
			case "compressed", "headers", "null_vs_empty", "value_spans_pages", "several_batches_per_response", "control_batch_hidden", "crc_mismatch_hidden", "v1_wrapper", "v1_wrapper_relative":
				feature = true
			}
		}
		n := len(fromOffset(logsim.Model(c.Layout.Batches), c.Start))
		mb := "big"
		if c.MaxBytes < 200 {
			mb = "tiny"
		} else if c.MaxBytes <= 5000 {
			mb = "small"
		}
		ev.Case(fmt.Sprintf("%s v%d start%d mb%s [%s] %v", c.Path, c.FetchMax, c.Start-c.LogStart, mb, layoutSummary(c.Layout.Batches), labels), n >= 2 && feature, labels...)
		ev.Sample(map[string]any{"unit": "TestFetch", "path": c.Path, "fetch_max": c.FetchMax, "start": c.Start, "max_bytes": c.MaxBytes, "log": layoutSummary(c.Layout.Batches), "labels": labels})
	})
}
