// Package c05 decides property C05: record batches — what is produced is
// exactly what a consumer decodes.
//
// Units:
//
//	TestProduce             (A) three produce routes -> wire, decoded by the fake's strict reference decoder
//	TestFetch               (B) reference-encoded logs -> Client.Fetch / Conn.ReadBatch / Reader
//	TestPool                (C) key/value Bytes held across other decodes (page pool aliasing)
//	TestMutatedSets         (D) RecordSet.ReadFrom on reference-encoded-then-mutated sets
//	FuzzRecordSetReadFrom   (D) the same property under the native fuzzer
package c05

import (
	"bytes"
	"encoding/binary"
	"fmt"
	"sort"
	"testing"
	"time"

	"pgregory.net/rapid"

	"verif/internal/ev"
	"verif/refcodec"
)

func TestMain(m *testing.M) { ev.Main(m, "C05") }

func TestReplay(t *testing.T) { ev.RunReplay(t) }

func init() {
	ev.Register("produce", func(tb ev.TB, c produceCase) { runProduce(tb, c) })
	ev.Register("fetch", func(tb ev.TB, c fetchCase) { runFetch(tb, c) })
	ev.Register("pool", func(tb ev.TB, c poolCase) { runPool(tb, c) })
	ev.Register("mutate", func(tb ev.TB, c mutCase) { runMut(tb, c) })
}

const (
	topic    = "t"
	pageSize = 65536
	brokerAd = "b1.fake:9092"
)

var codecNames = [...]string{"none", "gzip", "snappy", "lz4", "zstd"}

// fill returns n deterministic bytes.  Even seeds give incompressible data
// (xorshift), odd seeds a short repeated pattern.
func fill(n, seed int) []byte {
	b := make([]byte, n)
	x := uint32(seed)*2654435761 + 0x9e3779b9
	if seed%2 == 1 {
		var pat [13]byte
		for i := range pat {
			x ^= x << 13
			x ^= x >> 17
			x ^= x << 5
			pat[i] = byte(x)
		}
		for i := range b {
			b[i] = pat[i%len(pat)]
		}
		return b
	}
	for i := range b {
		x ^= x << 13
		x ^= x >> 17
		x ^= x << 5
		b[i] = byte(x >> 8)
	}
	return b
}

// bytesSpec is the recipe of a key, value or header value.
type bytesSpec struct {
	Kind int `json:"kind"` // 0 nil/null, 1 empty, 2 data
	Len  int `json:"len,omitempty"`
	Seed int `json:"seed,omitempty"`
}

func (s bytesSpec) bytes() []byte {
	switch s.Kind {
	case 0:
		return nil
	case 1:
		return []byte{}
	}
	return fill(s.Len, s.Seed)
}

func (s bytesSpec) class() string {
	switch {
	case s.Kind == 0:
		return "N"
	case s.Kind == 1:
		return "E"
	case s.Len > 2*pageSize:
		return "P3"
	case s.Len > pageSize:
		return "P2"
	case s.Len >= pageSize-1:
		return "P1"
	case s.Len > 100:
		return "M"
	}
	return "S"
}

func msOf(t time.Time) int64 {
	if y := t.Year(); y > 2200 {
		return t.UnixMilli() // beyond 2262 a nanosecond count does not fit 64 bits
	}
	ns := t.UnixNano()
	ms := ns / int64(time.Millisecond)
	if ns%int64(time.Millisecond) < 0 {
		ms-- // floor
	}
	return ms
}

func sortedKeys(m map[string]bool) []string {
	out := make([]string, 0, len(m))
	for k := range m {
		out = append(out, k)
	}
	sort.Strings(out)
	return out
}

func short(b []byte) string {
	if len(b) <= 24 {
		return fmt.Sprintf("%x", b)
	}
	return fmt.Sprintf("%x…(%d bytes)", b[:24], len(b))
}

// firstDiff returns the first index at which a and b differ (or the shorter length).
func firstDiff(a, b []byte) int {
	n := len(a)
	if len(b) < n {
		n = len(b)
	}
	for i := 0; i < n; i++ {
		if a[i] != b[i] {
			return i
		}
	}
	return n
}

// diffRecord compares a decoded record with the model.  exactNull: null and
// empty keys/values are different things (protocol path); otherwise nil == empty
// (Conn path).  Header values are compared by content only: the statement
// speaks of null vs empty for keys and values.
func diffRecord(got, want refcodec.Record, exactNull bool) string {
	switch {
	case got.Offset != want.Offset:
		return fmt.Sprintf("offset %d, model %d", got.Offset, want.Offset)
	case got.Timestamp != want.Timestamp:
		return fmt.Sprintf("offset %d: timestamp %d ms, model %d ms", want.Offset, got.Timestamp, want.Timestamp)
	case !bytes.Equal(got.Key, want.Key):
		return fmt.Sprintf("offset %d: key %s, model %s (first difference at byte %d)", want.Offset, short(got.Key), short(want.Key), firstDiff(got.Key, want.Key))
	case !bytes.Equal(got.Value, want.Value):
		return fmt.Sprintf("offset %d: value %s, model %s (first difference at byte %d)", want.Offset, short(got.Value), short(want.Value), firstDiff(got.Value, want.Value))
	case exactNull && got.KeyNull != want.KeyNull:
		return fmt.Sprintf("offset %d: key null=%v, model null=%v", want.Offset, got.KeyNull, want.KeyNull)
	case exactNull && got.ValueNull != want.ValueNull:
		return fmt.Sprintf("offset %d: value null=%v, model null=%v", want.Offset, got.ValueNull, want.ValueNull)
	case len(got.Headers) != len(want.Headers):
		return fmt.Sprintf("offset %d: %d headers, model %d", want.Offset, len(got.Headers), len(want.Headers))
	}
	for i, h := range got.Headers {
		w := want.Headers[i]
		if h.Key != w.Key || !bytes.Equal(h.Value, w.Value) {
			return fmt.Sprintf("offset %d: header %d %q=%x, model %q=%x", want.Offset, i, h.Key, h.Value, w.Key, w.Value)
		}
		if h.ValueNull != w.ValueNull {
			ev.Count("header_value_null_vs_empty_differs", 1)
		}
	}
	return ""
}

// ---------------------------------------------------------------------------
// Walking a raw record set unit by unit (a unit = one format-2 batch or one
// format-0/1 message, possibly a compressed wrapper).

type unit struct {
	Raw     []byte
	Magic   int8
	End     int64 // offset after the last offset the unit covers (from its header)
	Bad     bool  // the strict reference decoder rejects it (checksum...)
	BadWhy  string
	Control bool
	Records []refcodec.Record
}

// walkUnits splits b into the whole units it holds; a trailing partial unit is
// dropped (brokers cut responses at a byte limit).
func walkUnits(b []byte) []unit {
	var out []unit
	for len(b) >= 17 {
		size := int32(binary.BigEndian.Uint32(b[8:12]))
		if size < 0 || int(size) > len(b)-12 {
			break
		}
		raw := b[:12+int(size)]
		b = b[12+int(size):]
		u := unit{Raw: raw, Magic: int8(raw[16])}
		off := int64(binary.BigEndian.Uint64(raw[0:8]))
		if u.Magic == 2 && len(raw) >= 27 {
			u.End = off + int64(int32(binary.BigEndian.Uint32(raw[23:27]))) + 1
		} else {
			u.End = off + 1
		}
		rs, err := refcodec.DecodeRecordSet(raw)
		if err != nil {
			u.Bad, u.BadWhy = true, err.Error()
		} else {
			for _, bt := range rs.Batches {
				if bt.Control {
					u.Control = true
					continue
				}
				u.Records = append(u.Records, bt.Records...)
			}
		}
		out = append(out, u)
	}
	return out
}

func layoutSummary(batches []refcodec.Batch) string {
	s := ""
	for i, b := range batches {
		if i > 0 {
			s += " "
		}
		s += fmt.Sprintf("m%d/%s/n%d", b.Magic, codecNames[b.Codec], len(b.Records))
		if b.Control {
			s += "/ctl"
		}
		if b.CorruptCRC {
			s += "/badcrc"
		}
	}
	return s
}

var bigLens = []int{pageSize - 1, pageSize, pageSize + 1, 2 * pageSize, 2*pageSize + 1, 3 * pageSize, 3*pageSize + 1}

// injectBig replaces the value (sometimes the key) of one stored data record
// by a recipe-generated one that fills or spans 64 KiB pages.
func injectBig(t *rapid.T, batches []refcodec.Batch) bool {
	var idx [][2]int
	for i, b := range batches {
		if b.Control {
			continue
		}
		for j := range b.Records {
			idx = append(idx, [2]int{i, j})
		}
	}
	if len(idx) == 0 {
		return false
	}
	p := idx[rapid.IntRange(0, len(idx)-1).Draw(t, "bigRecord")]
	n := rapid.SampledFrom(bigLens).Draw(t, "bigLen")
	data := fill(n, rapid.IntRange(0, 255).Draw(t, "bigSeed"))
	recs := append([]refcodec.Record{}, batches[p[0]].Records...)
	if rapid.IntRange(0, 3).Draw(t, "bigKey") == 0 {
		recs[p[1]].Key, recs[p[1]].KeyNull = data, false
	} else {
		recs[p[1]].Value, recs[p[1]].ValueNull = data, false
	}
	batches[p[0]].Records = recs
	return true
}
