package c05

import (
	"bufio"
	"bytes"
	"context"
	"encoding/binary"
	"errors"
	"fmt"
	"io"
	"runtime"
	"sync"
	"sync/atomic"
	"testing"
	"time"

	kafka "github.com/segmentio/kafka-go"
	"github.com/segmentio/kafka-go/protocol"
	"pgregory.net/rapid"

	"verif/fakecluster"
	"verif/internal/ev"
	"verif/internal/logsim"
	"verif/memnet"
	"verif/refcodec"
)

// ---------------------------------------------------------------------------
// (C) key/value Bytes stay intact until released, whatever is decoded meanwhile

type poolStep struct {
	Set int    `json:"set"`
	Via string `json:"via"` // bufio | buffer | plain (RecordSet.ReadFrom on that reader type) | fetch (Client.Fetch)
	// Actions[i mod len] decides what happens to record i: key action*4 + value action;
	// 0 read fully, compare, Close; 1 hold unread; 2 read half, compare, hold; 3 Close unread
	Actions []int `json:"actions"`
	// Release lists, after the step, held items (index mod number held) to read to the end, compare and Close
	Release []int `json:"release"`
}

type poolCase struct {
	Sets    [][]refcodec.Batch `json:"sets"`
	Workers [][]poolStep       `json:"workers"`
	Procs   int                `json:"procs"`
}

type heldBytes struct {
	b    protocol.Bytes
	want []byte
	pos  int
	what string
}

type poolFailure struct{ sig, msg string }

type plainReader struct{ r io.Reader } // hides every optional interface

func (p plainReader) Read(b []byte) (int, error) { return p.r.Read(b) }

var poolReleases atomic.Int64 // Close calls so far in this process: pages went back to the pool

func runPool(tb ev.TB, c poolCase) (labels []string, ok bool) {
	if c.Procs > 0 {
		defer runtime.GOMAXPROCS(runtime.GOMAXPROCS(c.Procs))
	}
	lab := map[string]bool{}
	models := make([][]refcodec.Record, len(c.Sets))
	encoded := make([][]byte, len(c.Sets))
	firsts := make([]int64, len(c.Sets))
	usesFetch := false
	for _, w := range c.Workers {
		for _, s := range w {
			if s.Via == "fetch" {
				usesFetch = true
			}
		}
	}
	var cl *fakecluster.Cluster
	var client *kafka.Client
	if usesFetch {
		nw := memnet.New()
		cl = fakecluster.New(nw, 1)
		defer cl.Close()
		tr := &kafka.Transport{Dial: nw.Dial, ClientID: "c05"}
		defer tr.CloseIdleConnections()
		client = &kafka.Client{Addr: kafka.TCP(brokerAd), Transport: tr, Timeout: 30 * time.Second}
	}
	for i, bs := range c.Sets {
		models[i] = logsim.Model(bs)
		rs := refcodec.RecordSet{Batches: bs}
		enc, err := rs.Encode()
		if err != nil {
			tb.Fatalf("harness: encode set %d: %v", i, err)
		}
		encoded[i] = append(binary.BigEndian.AppendUint32(nil, uint32(len(enc))), enc...)
		if len(bs) > 0 {
			if bs[0].Magic == 2 {
				firsts[i] = bs[0].BaseOffset
			} else if len(bs[0].Records) > 0 {
				firsts[i] = bs[0].Records[0].Offset
			}
		}
		if cl != nil {
			name := fmt.Sprintf("s%d", i)
			cl.CreateTopic(name, 1)
			cl.AppendBatches(name, 0, bs...)
			cl.SetLogRange(name, 0, firsts[i], logsim.End(bs))
		}
		for _, r := range models[i] {
			if len(r.Value) > pageSize || len(r.Key) > pageSize {
				lab["value_spans_pages"] = true
			}
		}
		for _, b := range bs {
			if b.Control {
				lab["control_batch_in_set"] = true
			}
			if b.Codec != 0 && len(b.Records) > 0 {
				lab["compressed"] = true
			}
		}
		if len(bs) > 1 {
			lab["multi_batch_set"] = true
		}
	}

	var mu sync.Mutex
	var failures []poolFailure
	inconclusive := false
	report := func(sig, format string, args ...any) {
		mu.Lock()
		failures = append(failures, poolFailure{sig, fmt.Sprintf(format, args...)})
		mu.Unlock()
	}
	setLabel := func(l string) {
		mu.Lock()
		lab[l] = true
		mu.Unlock()
	}

	verify := func(h heldBytes, heldAcross bool) bool {
		rest := make([]byte, len(h.want)-h.pos+8)
		n, err := io.ReadFull(h.b, rest)
		if err != nil && !errors.Is(err, io.EOF) && !errors.Is(err, io.ErrUnexpectedEOF) {
			report("c05/pool-read-error", "%s: reading the held Bytes: %v", h.what, err)
			return false
		}
		rest = rest[:n]
		h.b.Close()
		poolReleases.Add(1)
		if !bytes.Equal(rest, h.want[h.pos:]) {
			sig := "c05/fetch-content/pool"
			when := "read right after decoding"
			if heldAcross {
				sig, when = "c05/page-aliasing", "held while other record sets were decoded and released"
			}
			report(sig, "%s (%s): bytes [%d:] read %s, model %s (first difference at byte %d of %d)", h.what, when, h.pos, short(rest), short(h.want[h.pos:]), h.pos+firstDiff(rest, h.want[h.pos:]), len(h.want))
			return false
		}
		return true
	}

	var wg sync.WaitGroup
	for wi, steps := range c.Workers {
		wg.Add(1)
		go func(wi int, steps []poolStep) {
			defer wg.Done()
			var held []heldBytes
			for si, st := range steps {
				if len(held) > 0 {
					setLabel("held_across_decode")
					if poolReleases.Load() > 0 {
						setLabel("pool_reuse_while_held")
					}
				}
				var rr protocol.RecordReader
				switch st.Via {
				case "fetch":
					ctx, cancel := context.WithTimeout(context.Background(), 30*time.Second)
					res, err := client.Fetch(ctx, &kafka.FetchRequest{Topic: fmt.Sprintf("s%d", st.Set), Partition: 0, Offset: firsts[st.Set], MinBytes: 1, MaxBytes: 1 << 26, MaxWait: 200 * time.Millisecond})
					cancel()
					if err != nil || res.Error != nil {
						if isTimeout(err) {
							mu.Lock()
							inconclusive = true
							mu.Unlock()
							return
						}
						report("c05/fetch-error/pool", "worker %d step %d: Client.Fetch of set %d: %v / %v", wi, si, st.Set, err, res)
						return
					}
					rr = res.Records
					setLabel("via_client_fetch")
				default:
					var rd io.Reader
					switch st.Via {
					case "bufio":
						rd = bufio.NewReader(bytes.NewReader(encoded[st.Set]))
					case "buffer":
						rd = bytes.NewBuffer(append([]byte{}, encoded[st.Set]...))
					default:
						rd = plainReader{bytes.NewReader(encoded[st.Set])}
					}
					var rs protocol.RecordSet
					if _, err := rs.ReadFrom(rd); err != nil {
						report("c05/fetch-error/pool", "worker %d step %d: RecordSet.ReadFrom(%s reader) of set %d [%s]: %v", wi, si, st.Via, st.Set, layoutSummary(c.Sets[st.Set]), err)
						return
					}
					rr = rs.Records
					setLabel("via_readfrom_" + st.Via)
				}
				model := models[st.Set]
				i := 0
				for rr != nil {
					rec, err := rr.ReadRecord()
					if err != nil {
						if !errors.Is(err, io.EOF) {
							report("c05/fetch-error/pool", "worker %d step %d: ReadRecord #%d of set %d: %v", wi, si, i, st.Set, err)
							return
						}
						break
					}
					if i >= len(model) {
						report("c05/fetch-extra/pool", "worker %d step %d: set %d [%s] yields more than its %d records (offset %d)", wi, si, st.Set, layoutSummary(c.Sets[st.Set]), len(model), rec.Offset)
						return
					}
					m := model[i]
					if rec.Offset != m.Offset || (rec.Key == nil) != m.KeyNull || (rec.Value == nil) != m.ValueNull {
						report("c05/fetch-content/pool", "worker %d step %d: set %d record #%d: offset %d keyNull %v valueNull %v, model offset %d keyNull %v valueNull %v", wi, si, st.Set, i, rec.Offset, rec.Key == nil, rec.Value == nil, m.Offset, m.KeyNull, m.ValueNull)
						return
					}
					act := 0
					if len(st.Actions) > 0 {
						act = st.Actions[i%len(st.Actions)]
					}
					for part, b := range []protocol.Bytes{rec.Key, rec.Value} {
						if b == nil {
							continue
						}
						want, a, name := m.Key, act/4, "key"
						if part == 1 {
							want, a, name = m.Value, act%4, "value"
						}
						h := heldBytes{b: b, want: want, what: fmt.Sprintf("worker %d step %d (%s) set %d [%s] record #%d offset %d %s of %d bytes", wi, si, st.Via, st.Set, layoutSummary(c.Sets[st.Set]), i, m.Offset, name, len(want))}
						if b.Len() != len(want) {
							report("c05/fetch-content/pool", "%s: Len() = %d", h.what, b.Len())
							return
						}
						switch a {
						case 0:
							if !verify(h, false) {
								return
							}
						case 1:
							held = append(held, h)
						case 2:
							k := len(want) / 2
							buf := make([]byte, k)
							if _, err := io.ReadFull(b, buf); err != nil {
								report("c05/pool-read-error", "%s: reading the first %d bytes: %v", h.what, k, err)
								return
							}
							if !bytes.Equal(buf, want[:k]) {
								report("c05/fetch-content/pool", "%s: first %d bytes read %s, model %s", h.what, k, short(buf), short(want[:k]))
								return
							}
							h.pos = k
							held = append(held, h)
							setLabel("held_partially_read")
						default:
							b.Close()
							poolReleases.Add(1)
						}
					}
					i++
				}
				if i != len(model) {
					report("c05/fetch-missing/pool", "worker %d step %d (%s): set %d [%s] yielded %d records, the model has %d", wi, si, st.Via, st.Set, layoutSummary(c.Sets[st.Set]), i, len(model))
					return
				}
				for _, k := range st.Release {
					if len(held) == 0 {
						break
					}
					k %= len(held)
					h := held[k]
					held = append(held[:k], held[k+1:]...)
					if !verify(h, true) {
						return
					}
				}
			}
			for _, h := range held {
				if !verify(h, true) {
					return
				}
			}
		}(wi, steps)
	}
	wg.Wait()
	if len(failures) > 0 {
		f := failures[0]
		ev.Fail(tb, "pool", f.sig, c, "%s (%d failures in this schedule)", f.msg, len(failures))
		return nil, false
	}
	if inconclusive {
		ev.Inconclusive("pool_fetch_timed_out")
		return nil, false
	}
	if len(c.Workers) > 1 {
		lab["concurrent_decodes"] = true
	}
	return sortedKeys(lab), true
}

func genPoolCase(t *rapid.T) poolCase {
	c := poolCase{Procs: rapid.SampledFrom([]int{1, 1, 2, 4}).Draw(t, "procs")}
	nSets := rapid.IntRange(2, 5).Draw(t, "nSets")
	for i := 0; i < nSets; i++ {
		o := logsim.Opts{MaxMagic: 2, MinMagic: int8(rapid.SampledFrom([]int{0, 1, 2, 2, 2}).Draw(t, "minMagic")), MaxRecords: 10, MaxPerBatch: 5, Holes: true,
			Big: rapid.IntRange(0, 2).Draw(t, "big") == 0, Control: true, Start: int64(rapid.SampledFrom([]int{0, 7}).Draw(t, "base"))}
		l := logsim.Gen(t, o)
		if rapid.IntRange(0, 2).Draw(t, "injectBig") == 0 {
			injectBig(t, l.Batches)
		}
		c.Sets = append(c.Sets, l.Batches)
	}
	nWorkers := rapid.SampledFrom([]int{1, 1, 2, 3, 4}).Draw(t, "workers")
	for w := 0; w < nWorkers; w++ {
		var steps []poolStep
		n := rapid.IntRange(2, 6).Draw(t, "nSteps")
		for s := 0; s < n; s++ {
			st := poolStep{Set: rapid.IntRange(0, nSets-1).Draw(t, "set"),
				Via:     rapid.SampledFrom([]string{"bufio", "bufio", "buffer", "plain", "fetch", "fetch"}).Draw(t, "via"),
				Actions: rapid.SliceOfN(rapid.IntRange(0, 15), 1, 6).Draw(t, "actions"),
				Release: rapid.SliceOfN(rapid.IntRange(0, 30), 0, 6).Draw(t, "release")}
			steps = append(steps, st)
		}
		c.Workers = append(c.Workers, steps)
	}
	return c
}

func TestPool(t *testing.T) {
	rapid.Check(t, func(t *rapid.T) {
		c := genPoolCase(t)
		ev.InFlight("pool", c)
		labels, ok := runPool(t, c)
		if !ok {
			return
		}
		nt := false
		for _, l := range labels {
			if l == "pool_reuse_while_held" || l == "held_across_decode" {
				nt = true
			}
		}
		fp := fmt.Sprintf("p%d ", c.Procs)
		for _, s := range c.Sets {
			fp += "[" + layoutSummary(s) + "]"
		}
		for _, w := range c.Workers {
			fp += "|"
			for _, s := range w {
				fp += fmt.Sprintf("%d%s%v%v,", s.Set, s.Via[:2], s.Actions, s.Release)
			}
		}
		ev.Case(fp, nt, labels...)
		steps := 0
		for _, w := range c.Workers {
			steps += len(w)
		}
		ev.Sample(map[string]any{"unit": "TestPool", "procs": c.Procs, "sets": len(c.Sets), "workers": len(c.Workers), "steps": steps, "labels": labels})
	})
}
