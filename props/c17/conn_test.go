package c17

import (
	"bytes"
	"context"
	"errors"
	"fmt"
	"io"
	"net"
	"os"
	"strconv"
	"strings"
	"sync"
	"testing"
	"time"

	kafka "github.com/segmentio/kafka-go"
	"github.com/segmentio/kafka-go/compress"
	"pgregory.net/rapid"

	"verif/fakecluster"
	"verif/internal/ev"
	"verif/internal/logsim"
	"verif/memnet"
	"verif/refcodec"
)

// connCase is one cut of one response read by one Conn operation.
type connCase struct {
	Op       string           `json:"op"`
	Ver      int16            `json:"ver"`          // highest version of the operation's API the broker advertises (-1: everything)
	TKey     int16            `json:"target_key"`   // api key of the response that is cut
	TIdx     int              `json:"target_index"` // index among the requests of that key the operation sends
	K        int              `json:"k"`            // bytes of the response delivered before the connection ends
	Variant  string           `json:"variant"`      // eof | rst | stall
	LogName  string           `json:"log_name,omitempty"`
	Log      []refcodec.Batch `json:"log,omitempty"`
	Start    int64            `json:"start"`     // fetch operations: first offset wanted; -1 = "first" (resolved by the Conn through ListOffsets)
	MaxBytes int              `json:"max_bytes"` // fetch operations
	// DL "op": only the deadline of the operation's own direction is set (SetWriteDeadline for write operations,
	// SetReadDeadline for the others), the other one is cleared; "" = SetDeadline.  "op-before" (stall variant): the same,
	// but the short deadline is set once, before the operation is called, and not touched while it runs.
	DL string `json:"dl,omitempty"`
}

// writeOps are the operations that Conn documents as writes (they observe the write deadline, also while they wait for
// the response and while they negotiate versions).
var writeOps = map[string]bool{"WriteMessages": true, "WriteCompressedMessages": true, "WriteCompressedMessagesAt": true, "CreateTopics": true, "DeleteTopics": true}

// readOps: exported operations that observe the read deadline (the unexported group operations are left out: which
// deadline they observe is not documented).
var readOps = map[string]bool{"ApiVersions": true, "Controller": true, "Brokers": true, "ReadPartitions": true, "ReadFirstOffset": true, "ReadLastOffset": true, "ReadOffset": true,
	"ReadOffsets": true, "SeekStart": true, "SeekEnd": true}

func setDL(conn *kafka.Conn, c connCase, t time.Time) {
	switch {
	case (c.DL == "op" || c.DL == "op-before") && writeOps[c.Op]:
		conn.SetReadDeadline(time.Time{})
		conn.SetWriteDeadline(t)
	case c.DL == "op" || c.DL == "op-before":
		conn.SetWriteDeadline(time.Time{})
		conn.SetReadDeadline(t)
	default:
		conn.SetDeadline(t)
	}
}

func init() { ev.Register("conn", func(tb ev.TB, c connCase) { runConn(tb, c, nil) }) }

// ---------------------------------------------------------------------------
// standard logs (deterministic; generated ones come from logsim)

func rec(off, ts int64, key, val string, hdr ...string) refcodec.Record {
	r := refcodec.Record{Offset: off, Timestamp: ts, Key: []byte(key), Value: []byte(val)}
	if key == "<nil>" {
		r.Key, r.KeyNull = nil, true
	}
	for i := 0; i+1 < len(hdr); i += 2 {
		r.Headers = append(r.Headers, refcodec.Header{Key: hdr[i], Value: []byte(hdr[i+1])})
	}
	return r
}

func legacy(magic, codec int8, recs ...refcodec.Record) refcodec.Batch {
	if magic == 0 {
		for i := range recs {
			recs[i].Timestamp = 0
		}
	}
	return refcodec.Batch{Magic: magic, Codec: codec, Records: recs, RelativeInner: true, SnappyXerial: true}
}

func v2(codec int8, recs ...refcodec.Record) refcodec.Batch { return refcodec.MakeBatchV2(recs, codec) }

func bigValue(n int) string {
	b := make([]byte, n)
	for i := range b {
		b[i] = byte('a' + (i*7+i>>9)%26)
	}
	return string(b)
}

var stdLogNames = []string{"v0plain", "v1mixed", "v2plain", "v2codecs", "mixed012", "v2big"}

func stdLog(name string) []refcodec.Batch {
	const ts = 1600000000000
	switch name {
	case "v0plain":
		return []refcodec.Batch{legacy(0, 0, rec(0, 0, "k0", "value-0"), rec(1, 0, "<nil>", "value-1"), rec(2, 0, "k2", ""), rec(3, 0, "k3", "value-3"))}
	case "v1mixed":
		return []refcodec.Batch{
			legacy(1, 0, rec(0, ts, "k0", "value-0"), rec(1, ts+1, "<nil>", "value-1")),
			legacy(1, refcodec.CodecGzip, rec(2, ts+2, "k2", "value-2 value-2 value-2"), rec(3, ts+3, "k3", "value-3"), rec(4, ts+4, "k4", "value-4")),
			legacy(1, refcodec.CodecSnappy, rec(5, ts+5, "k5", "value-5"), rec(6, ts+6, "k6", "value-6 value-6")),
		}
	case "v2plain":
		return []refcodec.Batch{
			v2(0, rec(0, ts, "k0", "value-0", "h", "x"), rec(1, ts+1, "<nil>", "value-1"), rec(2, ts+2, "k2", "value-2", "a", "1", "b", "")),
			v2(0, rec(3, ts+3, "k3", "value-3"), rec(4, ts+4, "k4", "value-4", "h", "y")),
		}
	case "v2codecs":
		return []refcodec.Batch{
			v2(refcodec.CodecGzip, rec(0, ts, "k0", "value-0 value-0 value-0", "h", "x"), rec(1, ts+1, "k1", "value-1")),
			v2(refcodec.CodecSnappy, rec(2, ts+2, "k2", "value-2 value-2"), rec(3, ts+3, "k3", "value-3", "h", "y")),
			v2(refcodec.CodecLz4, rec(4, ts+4, "k4", "value-4 value-4"), rec(5, ts+5, "k5", "value-5")),
			v2(refcodec.CodecZstd, rec(6, ts+6, "k6", "value-6 value-6"), rec(7, ts+7, "k7", "value-7")),
		}
	case "mixed012":
		return []refcodec.Batch{
			legacy(0, 0, rec(0, 0, "k0", "value-0"), rec(1, 0, "k1", "value-1")),
			legacy(1, refcodec.CodecLz4, rec(2, ts+2, "k2", "value-2 value-2"), rec(3, ts+3, "k3", "value-3")),
			v2(0, rec(4, ts+4, "k4", "value-4", "h", "x"), rec(5, ts+5, "k5", "value-5")),
			v2(refcodec.CodecZstd, rec(6, ts+6, "k6", "value-6"), rec(7, ts+7, "k7", "value-7"), rec(8, ts+8, "k8", "value-8")),
		}
	case "v2big":
		return []refcodec.Batch{
			v2(0, rec(0, ts, "k0", bigValue(5000)), rec(1, ts+1, "k1", "value-1")),
			v2(refcodec.CodecSnappy, rec(2, ts+2, "k2", bigValue(70000)), rec(3, ts+3, "k3", "value-3")),
			v2(0, rec(4, ts+4, "k4", "value-4")),
		}
	}
	return nil
}

func maxMagic(bs []refcodec.Batch) int8 {
	m := int8(0)
	for _, b := range bs {
		if b.Magic > m {
			m = b.Magic
		}
	}
	return m
}

// ---------------------------------------------------------------------------
// fixture: one fake cluster and the fault plan of the case being evaluated

type plan struct {
	connID int
	key    int16
	idx    int
	mode   string // probe eof rst stall
	k      int
	seen   map[int16]int
	onHit  func() // called when the target request arrives (stall: the short deadline starts then)
	// what the hook observed
	hit     bool
	stalled bool
	frame   []byte
	fields  []refcodec.LenField
	version int16
}

type fixture struct {
	nw   *memnet.Network
	cl   *fakecluster.Cluster
	mu   sync.Mutex
	plan *plan
	uses int
	key  string
}

func (fx *fixture) close() { fx.cl.Close() }

func (fx *fixture) arm(p *plan) {
	fx.mu.Lock()
	if p != nil {
		p.seen = map[int16]int{}
	}
	fx.plan = p
	fx.mu.Unlock()
}

func (fx *fixture) hook(cl *fakecluster.Cluster, r *fakecluster.Request) *fakecluster.Action {
	fx.mu.Lock()
	defer fx.mu.Unlock()
	p := fx.plan
	if p == nil || r.ConnID != p.connID {
		return nil
	}
	if p.stalled {
		// the connection went silent: nothing is delivered on it any more
		return &fakecluster.Action{NoResponse: true, Tag: "c17-silent"}
	}
	i := p.seen[r.ApiKey]
	p.seen[r.ApiKey]++
	if r.ApiKey != p.key || i != p.idx {
		return nil
	}
	p.hit = true
	p.version = r.Version
	if p.onHit != nil {
		p.onHit()
	}
	act := &fakecluster.Action{Tag: "c17-" + p.mode}
	capture := func(body map[string]any) {
		fr, fields, err := refcodec.EncodeResponse(r.API, r.Version, r.Corr, body, nil)
		if err != nil {
			panic(fmt.Sprintf("harness: cannot encode the response: %v", err))
		}
		fx.mu.Lock()
		p.frame, p.fields = fr, fields
		fx.mu.Unlock()
	}
	switch p.mode {
	case "probe":
		act.Mutate = capture
	case "eof", "rst":
		act.CutResponse, act.CutResponseAt, act.Rst = true, p.k, p.mode == "rst"
		act.Mutate = capture
	case "stall":
		p.stalled = true
		r.Conn.MarkDead()
		k := p.k
		act.Mutate = func(body map[string]any) {
			capture(body)
			fx.mu.Lock()
			fr := p.frame
			fx.mu.Unlock()
			if k > len(fr) {
				k = len(fr)
			}
			act.RawResponse = append([]byte{}, fr[:k]...)
		}
	}
	return act
}

// fixtureKey names what the cluster state depends on.
func fixtureKey(c connCase) string {
	return fmt.Sprintf("%s|%d|%s", c.Op, c.Ver, c.LogName)
}

func newFixture(c connCase) *fixture {
	op := connOps[c.Op]
	fx := &fixture{nw: memnet.New(), key: fixtureKey(c)}
	fx.cl = fakecluster.New(fx.nw, 1)
	fx.cl.CreateTopic(topic, 1)
	fx.cl.CreateTopic("doomed", 1)
	log := c.Log
	if log == nil && c.LogName != "" {
		log = stdLog(c.LogName)
	}
	if log == nil {
		log = stdLog("v2plain")
	}
	fx.cl.AppendBatches(topic, 0, log...)
	if c.Ver >= 0 {
		fx.cl.SetVersions(0, op.key, 0, c.Ver)
	}
	fx.cl.SetCommitted("g", topic, 0, 3)
	fx.cl.SetHook(fx.hook)
	return fx
}

// ---------------------------------------------------------------------------
// operations

type opResult struct {
	err      error
	data     string // canonical rendering of what the call returned
	msgs     []kafka.Message
	readErr  error // fetch operations: what ended the ReadMessage loop
	closeErr error // fetch operations: Batch.Close
	batch    bool
	single   bool // single-message convenience call or early Close: a complete first message without error is legitimate
}

type env struct {
	c    connCase
	fx   *fixture
	conn *kafka.Conn
	d    *kafka.Dialer
	deadline time.Duration
	cancel   context.CancelFunc // DialLeader: ends the dial
	// state handed from prep to call
	member string
	gen    int32
}

type target struct {
	key int16
	idx int
}

type connOp struct {
	name     string
	key      int16
	vers     []int16  // versions to pin the operation's API at; nil = one run with the full range
	targets  []target // every response the operation reads, in order of appearance (the main one included)
	prep     func(e *env) error
	call     func(e *env) opResult
	fetch    bool
	dials    bool  // the operation dials its own connection (DialLeader)
	slow     bool  // skip in the quick tier's stall variant
	logs     []string
	starts   []int64
	maxBytes []int
}

func render(v any, err error) opResult { return opResult{err: err, data: fmt.Sprintf("%+v", v)} }

func testMessages() []kafka.Message {
	return []kafka.Message{
		{Key: []byte("wk1"), Value: []byte("written-1"), Time: time.UnixMilli(1600000001000)},
		{Key: nil, Value: []byte("written-2 written-2"), Time: time.UnixMilli(1600000002000), Headers: []kafka.Header{{Key: "h", Value: []byte("v")}}},
	}
}

func joinPrep(e *env) error {
	r, err := e.conn.VerifJoinGroup("g", "", "consumer", 30000, 30000, []kafka.VerifGroupProtocol{{Name: "range", Metadata: []byte("meta")}})
	e.member, e.gen = r.MemberID, r.GenerationID
	return err
}

func joinSyncPrep(e *env) error {
	if err := joinPrep(e); err != nil {
		return err
	}
	_, err := e.conn.VerifSyncGroup("g", e.member, e.gen, map[string][]byte{e.member: []byte("assignment")}, []string{e.member})
	return err
}

func seekPrep(e *env) error {
	if e.c.Start < 0 {
		return nil
	}
	_, err := e.conn.Seek(e.c.Start, kafka.SeekAbsolute|kafka.SeekDontCheck)
	return err
}

func readBatchCfg(e *env) kafka.ReadBatchConfig {
	return kafka.ReadBatchConfig{MinBytes: 1, MaxBytes: e.c.MaxBytes, MaxWait: 50 * time.Millisecond}
}

func fetchTargets() []target {
	return []target{{1, 0}, {18, 0}}
}

var connOps = map[string]*connOp{}
var connOpOrder []string

func addOp(o *connOp) {
	connOps[o.name] = o
	connOpOrder = append(connOpOrder, o.name)
}

func init() {
	addOp(&connOp{name: "ApiVersions", key: 18, targets: []target{{18, 0}},
		call: func(e *env) opResult { v, err := e.conn.ApiVersions(); return render(v, err) }})
	addOp(&connOp{name: "Controller", key: 3, targets: []target{{3, 0}},
		call: func(e *env) opResult { v, err := e.conn.Controller(); return render(v, err) }})
	addOp(&connOp{name: "Brokers", key: 3, targets: []target{{3, 0}},
		call: func(e *env) opResult { v, err := e.conn.Brokers(); return render(v, err) }})
	addOp(&connOp{name: "ReadPartitions", key: 3, vers: []int16{1, 6}, targets: []target{{3, 0}, {18, 0}},
		call: func(e *env) opResult { v, err := e.conn.ReadPartitions(topic, "doomed", "missing"); return render(v, err) }})
	addOp(&connOp{name: "ReadFirstOffset", key: 2, targets: []target{{2, 0}},
		call: func(e *env) opResult { v, err := e.conn.ReadFirstOffset(); return render(v, err) }})
	addOp(&connOp{name: "ReadLastOffset", key: 2, targets: []target{{2, 0}},
		call: func(e *env) opResult { v, err := e.conn.ReadLastOffset(); return render(v, err) }})
	addOp(&connOp{name: "ReadOffset", key: 2, targets: []target{{2, 0}},
		call: func(e *env) opResult { v, err := e.conn.ReadOffset(time.UnixMilli(1600000000002)); return render(v, err) }})
	addOp(&connOp{name: "ReadOffsets", key: 2, targets: []target{{2, 0}, {2, 1}},
		call: func(e *env) opResult {
			a, b, err := e.conn.ReadOffsets()
			return render([2]int64{a, b}, err)
		}})
	addOp(&connOp{name: "SeekStart", key: 2, targets: []target{{2, 0}, {2, 1}},
		call: func(e *env) opResult { v, err := e.conn.Seek(1, kafka.SeekStart); return render(v, err) }})
	addOp(&connOp{name: "SeekEnd", key: 2, targets: []target{{2, 0}, {2, 1}},
		call: func(e *env) opResult { v, err := e.conn.Seek(1, kafka.SeekEnd); return render(v, err) }})
	addOp(&connOp{name: "WriteMessages", key: 0, vers: []int16{2, 3, 7}, targets: []target{{0, 0}, {18, 0}},
		call: func(e *env) opResult { v, err := e.conn.WriteMessages(testMessages()...); return render(v, err) }})
	addOp(&connOp{name: "WriteCompressedMessages", key: 0, vers: []int16{2, 7}, targets: []target{{0, 0}},
		call: func(e *env) opResult {
			v, err := e.conn.WriteCompressedMessages(compress.Snappy.Codec(), testMessages()...)
			return render(v, err)
		}})
	addOp(&connOp{name: "WriteCompressedMessagesAt", key: 0, vers: []int16{3, 7}, targets: []target{{0, 0}},
		call: func(e *env) opResult {
			n, p, o, _, err := e.conn.WriteCompressedMessagesAt(compress.Gzip.Codec(), testMessages()...)
			return render([3]int64{int64(n), int64(p), o}, err)
		}})
	addOp(&connOp{name: "CreateTopics", key: 19, vers: []int16{0, 1, 2}, targets: []target{{19, 0}, {18, 0}},
		call: func(e *env) opResult {
			return render(nil, e.conn.CreateTopics(kafka.TopicConfig{Topic: "fresh", NumPartitions: 2, ReplicationFactor: 1}, kafka.TopicConfig{Topic: topic, NumPartitions: 1, ReplicationFactor: 1}))
		}})
	addOp(&connOp{name: "DeleteTopics", key: 20, vers: []int16{0, 1}, targets: []target{{20, 0}, {18, 0}},
		call: func(e *env) opResult { return render(nil, e.conn.DeleteTopics("doomed")) }})
	// consumer-group operations of Conn (exported for the harness by the verif build tag)
	addOp(&connOp{name: "FindCoordinator", key: 10, targets: []target{{10, 0}},
		call: func(e *env) opResult {
			id, h, p, err := e.conn.VerifFindCoordinator("g")
			return render(fmt.Sprint(id, h, p), err)
		}})
	addOp(&connOp{name: "JoinGroup", key: 11, vers: []int16{1, 2}, targets: []target{{11, 0}, {18, 0}},
		call: func(e *env) opResult {
			r, err := e.conn.VerifJoinGroup("g", "", "consumer", 30000, 30000, []kafka.VerifGroupProtocol{{Name: "range", Metadata: []byte("meta")}})
			return render(r, err)
		}})
	addOp(&connOp{name: "SyncGroup", key: 14, targets: []target{{14, 0}}, prep: joinPrep,
		call: func(e *env) opResult {
			v, err := e.conn.VerifSyncGroup("g", e.member, e.gen, map[string][]byte{e.member: []byte("assignment")}, []string{e.member})
			return render(v, err)
		}})
	addOp(&connOp{name: "Heartbeat", key: 12, targets: []target{{12, 0}}, prep: joinSyncPrep,
		call: func(e *env) opResult { return render(nil, e.conn.VerifHeartbeat("g", e.member, e.gen)) }})
	addOp(&connOp{name: "LeaveGroup", key: 13, targets: []target{{13, 0}}, prep: joinSyncPrep,
		call: func(e *env) opResult { return render(nil, e.conn.VerifLeaveGroup("g", e.member)) }})
	addOp(&connOp{name: "OffsetCommit", key: 8, targets: []target{{8, 0}}, prep: joinSyncPrep,
		call: func(e *env) opResult {
			return render(nil, e.conn.VerifOffsetCommit("g", e.member, e.gen, topic, map[int32]int64{0: 2}, []int32{0}))
		}})
	addOp(&connOp{name: "OffsetFetch", key: 9, targets: []target{{9, 0}},
		call: func(e *env) opResult { v, err := e.conn.VerifOffsetFetch("g", topic, []int32{0}); return render(v, err) }})
	addOp(&connOp{name: "ListGroups", key: 16, targets: []target{{16, 0}}, prep: joinPrep,
		call: func(e *env) opResult { v, err := e.conn.VerifListGroups(); return render(v, err) }})
	addOp(&connOp{name: "DialLeader", key: 3, dials: true, targets: []target{{3, 0}, {18, 0}},
		call: func(e *env) opResult {
			ctx, cancel := context.WithTimeout(context.Background(), e.deadline)
			defer cancel()
			e.cancel = cancel
			conn, err := e.d.DialLeader(ctx, "tcp", "b1.fake:9092", topic, 0)
			if conn != nil {
				e.conn = conn
			}
			return render(conn != nil, err)
		}})

	// fetch operations
	allLogs := stdLogNames
	addOp(&connOp{name: "ReadBatch", key: 1, vers: []int16{2, 5, 10}, fetch: true, prep: seekPrep, logs: allLogs, starts: []int64{0, 3, -1}, maxBytes: []int{1 << 20, 150},
		targets: []target{{1, 0}, {18, 0}, {2, 0}, {2, 1}},
		call: func(e *env) opResult {
			b := e.conn.ReadBatchWith(readBatchCfg(e))
			res := opResult{batch: true}
			for len(res.msgs) < 10000 {
				m, err := b.ReadMessage()
				if err != nil {
					res.readErr = err
					break
				}
				res.msgs = append(res.msgs, m)
			}
			res.closeErr = b.Close()
			return res
		}})
	addOp(&connOp{name: "ReadBatchRead", key: 1, vers: []int16{2, 10}, fetch: true, prep: seekPrep, logs: []string{"v1mixed", "v2codecs"}, starts: []int64{0}, maxBytes: []int{1 << 20},
		targets: []target{{1, 0}},
		call: func(e *env) opResult {
			// Batch.Read returns values only: offsets are taken from Batch.Offset()
			b := e.conn.ReadBatchWith(readBatchCfg(e))
			res := opResult{batch: true}
			buf := make([]byte, 1<<18)
			for len(res.msgs) < 10000 {
				n, err := b.Read(buf)
				if err != nil {
					res.readErr = err
					break
				}
				res.msgs = append(res.msgs, kafka.Message{Offset: -1, Value: append([]byte{}, buf[:n]...)})
			}
			res.closeErr = b.Close()
			return res
		}})
	addOp(&connOp{name: "ReadBatchEarlyClose", key: 1, vers: []int16{2, 10}, fetch: true, prep: seekPrep, logs: []string{"v1mixed", "v2plain", "v2codecs"}, starts: []int64{0}, maxBytes: []int{1 << 20},
		targets: []target{{1, 0}},
		call: func(e *env) opResult {
			b := e.conn.ReadBatchWith(readBatchCfg(e))
			res := opResult{batch: true, single: true}
			m, err := b.ReadMessage()
			if err != nil {
				res.readErr = err
			} else {
				res.msgs = append(res.msgs, m)
			}
			res.closeErr = b.Close()
			return res
		}})
	addOp(&connOp{name: "ConnReadMessage", key: 1, vers: []int16{2, 5, 10}, fetch: true, prep: seekPrep, logs: []string{"v1mixed", "v2plain", "v2codecs"}, starts: []int64{0}, maxBytes: []int{1 << 20},
		targets: []target{{1, 0}},
		call: func(e *env) opResult {
			res := opResult{batch: true, single: true}
			m, err := e.conn.ReadMessage(e.c.MaxBytes)
			if err != nil {
				res.closeErr = err
			} else {
				res.msgs = append(res.msgs, m)
			}
			return res
		}})
	addOp(&connOp{name: "ReadBatchLateDeadline", key: 1, vers: []int16{2, 10}, fetch: true, prep: seekPrep, logs: []string{"v2plain", "v1mixed"}, starts: []int64{0}, maxBytes: []int{1 << 20},
		targets: []target{{1, 0}},
		call: func(e *env) opResult {
			// the deadline that has to end the reading of the messages is set only after ReadBatch has returned (what the
			// Reader does: a long wait for the response, a shorter one for its content)
			b := e.conn.ReadBatchWith(readBatchCfg(e))
			e.conn.SetReadDeadline(time.Now().Add(150 * time.Millisecond))
			res := opResult{batch: true}
			for len(res.msgs) < 10000 {
				m, err := b.ReadMessage()
				if err != nil {
					res.readErr = err
					break
				}
				res.msgs = append(res.msgs, m)
			}
			res.closeErr = b.Close()
			return res
		}})
	addOp(&connOp{name: "ReadBatchShortBuffer", key: 1, vers: []int16{2, 10}, fetch: true, prep: seekPrep, logs: []string{"v1mixed", "v2plain"}, starts: []int64{0}, maxBytes: []int{1 << 20},
		targets: []target{{1, 0}},
		call: func(e *env) opResult {
			// a buffer too small for the first value: Batch.Read skips the message and reports io.ErrShortBuffer, which keeps the
			// Conn usable; Close then has to skip the rest of the response, and that is where the connection may end
			b := e.conn.ReadBatchWith(readBatchCfg(e))
			res := opResult{batch: true}
			_, res.readErr = b.Read(make([]byte, 1))
			res.closeErr = b.Close()
			return res
		}})
	addOp(&connOp{name: "ReadBatchOutOfRange", key: 1, vers: []int16{2, 5, 10}, fetch: true, prep: seekPrep, logs: []string{"v2plain"}, starts: []int64{100000}, maxBytes: []int{1 << 20},
		targets: []target{{1, 0}},
		call: func(e *env) opResult {
			// the position lies beyond the log: the broker answers with OFFSET_OUT_OF_RANGE in the partition header, the rest of
			// the (short) response still has to be consumed
			b := e.conn.ReadBatchWith(readBatchCfg(e))
			res := opResult{batch: true}
			_, res.readErr = b.ReadMessage()
			res.closeErr = b.Close()
			return res
		}})
	addOp(&connOp{name: "ConnRead", key: 1, vers: []int16{2, 10}, fetch: true, prep: seekPrep, logs: []string{"v1mixed", "v2plain"}, starts: []int64{0}, maxBytes: []int{1 << 20},
		targets: []target{{1, 0}},
		call: func(e *env) opResult {
			res := opResult{batch: true, single: true}
			buf := make([]byte, 1<<18)
			n, err := e.conn.Read(buf)
			if err != nil {
				res.closeErr = err
			} else {
				res.msgs = append(res.msgs, kafka.Message{Offset: -1, Value: append([]byte{}, buf[:n]...)})
			}
			return res
		}})
}

// ---------------------------------------------------------------------------
// evaluation of one case

type baseline struct {
	frame  frameInfo
	res    opResult
	model  []refcodec.Record // fetch operations: stored records from the start offset
	absent bool              // the operation never sent the target request
}

func connID(c net.Conn) int {
	s := c.LocalAddr().String() // "client:<id>"
	n, _ := strconv.Atoi(strings.TrimPrefix(s, "client:"))
	return n
}

type dialRec struct {
	mu  sync.Mutex
	ids []int
}

func (fx *fixture) dialer(rec *dialRec) *kafka.Dialer {
	return &kafka.Dialer{ClientID: "c17", Timeout: 3 * time.Second, DialFunc: func(ctx context.Context, network, addr string) (net.Conn, error) {
		c, err := fx.nw.Dial(ctx, network, addr)
		if err == nil {
			rec.mu.Lock()
			rec.ids = append(rec.ids, connID(c))
			rec.mu.Unlock()
		}
		return c, err
	}}
}

// execute runs the operation of c on a fresh connection of fx with the given
// fault mode and returns the result, the plan (what the hook saw) and the
// connection id under test.
func execute(tb ev.TB, fx *fixture, c connCase, mode string) (res opResult, p *plan, out callOutcome, e *env) {
	op := connOps[c.Op]
	rec := &dialRec{}
	e = &env{c: c, fx: fx, d: fx.dialer(rec)}
	p = &plan{key: c.TKey, idx: c.TIdx, mode: mode, k: c.K}
	// stall: the connection goes silent after k bytes; the call's deadline is set 80 ms ahead at the
	// moment the target request reaches the broker (the exchanges before it run under the long one)
	deadline := 4 * time.Second
	const stallDeadline = 80 * time.Millisecond
	const stallBefore = 400 * time.Millisecond
	e.deadline = deadline
	var hitAt time.Time
	var hitMu sync.Mutex
	if mode == "stall" {
		p.onHit = func() {
			hitMu.Lock()
			hitAt = time.Now()
			hitMu.Unlock()
			if e.conn != nil && c.Op != "ReadBatchLateDeadline" && c.DL != "op-before" {
				// (that operation sets its short deadline itself, after ReadBatch has returned)
				setDL(e.conn, c, time.Now().Add(stallDeadline))
			}
			if e.cancel != nil {
				time.AfterFunc(stallDeadline, e.cancel)
			}
		}
	}
	if !op.dials {
		ctx, cancel := context.WithTimeout(context.Background(), 3*time.Second)
		conn, err := e.d.DialPartition(ctx, "tcp", "b1.fake:9092", kafka.Partition{Topic: topic, ID: 0, Leader: kafka.Broker{Host: "b1.fake", Port: 9092, ID: 1}})
		cancel()
		if err != nil {
			tb.Fatalf("harness: dial: %v", err)
		}
		e.conn = conn
		p.connID = rec.ids[len(rec.ids)-1]
		if op.prep != nil {
			conn.SetDeadline(time.Now().Add(4 * time.Second))
			if err := op.prep(e); err != nil {
				tb.Fatalf("harness: preparation of %s failed: %v", c.Op, err)
			}
		}
		setDL(conn, c, time.Now().Add(deadline))
		if mode == "stall" && c.DL == "op-before" {
			// the caller bounds the whole operation up front, in the operation's own direction only (the exchanges before the
			// stalled one take microseconds in the in-memory network)
			setDL(conn, c, time.Now().Add(stallBefore))
		}
	} else {
		p.connID = len(fx.nw.Conns()) + 1
	}
	fx.arm(p)
	out = guarded(deadline+hangSlack, func() { res = op.call(e) })
	if mode == "stall" && out.Returned {
		// what counts is the time after the short deadline was set
		hitMu.Lock()
		if !hitAt.IsZero() {
			out.Took = time.Since(hitAt)
		}
		hitMu.Unlock()
	}
	return res, p, out, e
}

func clientWritten(fx *fixture, id int) int64 {
	for _, cs := range fx.nw.Conns() {
		if cs.ID == id {
			return cs.ClientWritten
		}
	}
	return 0
}

func sameBytes(a, b []byte) bool { return bytes.Equal(a, b) }

func diffMessage(m kafka.Message, r refcodec.Record, valueOnly bool) string {
	if valueOnly {
		if !sameBytes(m.Value, r.Value) {
			return fmt.Sprintf("value of %d bytes differs from the stored %d bytes of offset %d", len(m.Value), len(r.Value), r.Offset)
		}
		return ""
	}
	switch {
	case m.Offset != r.Offset:
		return fmt.Sprintf("offset %d, stored %d", m.Offset, r.Offset)
	case m.Topic != topic || m.Partition != 0:
		return fmt.Sprintf("topic/partition %s/%d", m.Topic, m.Partition)
	case !sameBytes(m.Key, r.Key):
		return fmt.Sprintf("key %x, stored %x", m.Key, r.Key)
	case !sameBytes(m.Value, r.Value):
		return fmt.Sprintf("value of %d bytes differs from the stored %d bytes", len(m.Value), len(r.Value))
	case r.Timestamp == 0 && !m.Time.IsZero():
		return fmt.Sprintf("time %v, stored record has no timestamp", m.Time)
	case r.Timestamp != 0 && refcodec.MillisOf(m.Time) != r.Timestamp:
		return fmt.Sprintf("time %d ms, stored %d ms", refcodec.MillisOf(m.Time), r.Timestamp)
	case len(m.Headers) != len(r.Headers):
		return fmt.Sprintf("%d headers, stored %d", len(m.Headers), len(r.Headers))
	}
	for i, h := range m.Headers {
		if h.Key != r.Headers[i].Key || !sameBytes(h.Value, r.Headers[i].Value) {
			return fmt.Sprintf("header %d %q=%x, stored %q=%x", i, h.Key, h.Value, r.Headers[i].Key, r.Headers[i].Value)
		}
	}
	return ""
}

// prefixOfModel checks that msgs are exactly the first stored records from the start offset.
func prefixOfModel(msgs []kafka.Message, model []refcodec.Record) string {
	if len(msgs) > len(model) {
		return fmt.Sprintf("%d messages returned, only %d records are stored from the start offset", len(msgs), len(model))
	}
	for i, m := range msgs {
		if d := diffMessage(m, model[i], m.Offset == -1); d != "" {
			return fmt.Sprintf("message %d: %s", i, d)
		}
	}
	return ""
}

func sameMessages(a, b []kafka.Message) bool {
	if len(a) != len(b) {
		return false
	}
	for i := range a {
		if a[i].Offset != b[i].Offset || !sameBytes(a[i].Key, b[i].Key) || !sameBytes(a[i].Value, b[i].Value) || !a[i].Time.Equal(b[i].Time) || len(a[i].Headers) != len(b[i].Headers) {
			return false
		}
	}
	return true
}

func (r opResult) failed() bool {
	if r.batch {
		return (r.readErr != nil && !errors.Is(r.readErr, io.EOF)) || r.closeErr != nil
	}
	return r.err != nil
}

func (r opResult) String() string {
	if r.batch {
		return fmt.Sprintf("%d messages, read error %s, close error %s", len(r.msgs), errString(r.readErr), errString(r.closeErr))
	}
	return fmt.Sprintf("err=%s data=%.200s", errString(r.err), r.data)
}

func modelFrom(fx *fixture, start int64) []refcodec.Record {
	var out []refcodec.Record
	for _, r := range fx.cl.Records(topic, 0) {
		if r.Offset >= start {
			out = append(out, r)
		}
	}
	return out
}

// probe runs the operation without fault and records the target frame.
func probe(tb ev.TB, c connCase) *baseline {
	fx := newFixture(c)
	defer fx.close()
	model := modelFrom(fx, c.Start)
	res, p, out, e := execute(tb, fx, c, "probe")
	if e.conn != nil {
		e.conn.Close()
	}
	if !out.Returned || out.Panic != nil {
		tb.Fatalf("harness: %s without fault did not return normally (returned=%v panic=%v)", c.Op, out.Returned, out.Panic)
	}
	b := &baseline{res: res, model: model}
	fx.mu.Lock()
	defer fx.mu.Unlock()
	if !p.hit {
		b.absent = true
		return b
	}
	b.frame = frameInfo{Len: len(p.frame), Fields: p.fields}
	if c.TKey == 1 {
		b.frame.Marks = fetchMarks(p.frame, p.fields)
	}
	if res.batch {
		if d := prefixOfModel(res.msgs, model); d != "" {
			// the uncut response itself is misread: not this property's business (C02), and no basis for the cuts
			b.absent = true
			ev.Inconclusive("baseline_differs_from_model")
			ev.SampleTagged("baseline-differs", 2, map[string]any{"case": c, "diff": d, "outcome": res.String()})
		}
	}
	return b
}

func opSig(c connCase) string {
	s := c.Op
	if op := connOps[c.Op]; op != nil && c.TKey != op.key {
		s += fmt.Sprintf("+implicit-%s", apiName(c.TKey))
	}
	return s
}

func apiName(key int16) string {
	if a := refcodec.Lookup(key); a != nil {
		return a.Name
	}
	return fmt.Sprint(key)
}

// runConn evaluates one case.  base (the uncut run) is computed when nil; fx may
// be shared between cases whose operation does not change the cluster.
func runConn(tb ev.TB, c connCase, base *baseline) {
	evalConn(tb, c, base, nil)
}

func evalConn(tb ev.TB, c connCase, base *baseline, shared *fixture) {
	op := connOps[c.Op]
	if op == nil {
		tb.Fatalf("harness: unknown operation %q", c.Op)
	}
	if base == nil {
		base = probe(tb, c)
	}
	if base.absent {
		return
	}
	fx := shared
	if fx == nil {
		fx = newFixture(c)
		defer fx.close()
	}
	fail := func(sig, format string, args ...any) bool {
		region, field := base.frame.regionOf(c.K)
		return reportFail(tb, "conn", sig, c, "%s v%d, response of %s #%d cut after %d of %d bytes (%s; %s), variant %s: "+format,
			append([]any{c.Op, c.Ver, apiName(c.TKey), c.TIdx, c.K, base.frame.Len, region, field, c.Variant}, args...)...)
	}
	res, p, out, e := execute(tb, fx, c, c.Variant)
	defer func() {
		if e.conn != nil {
			e.conn.Close()
		}
		fx.arm(nil)
	}()
	sig := opSig(c)
	if os.Getenv("C17_DEBUG") != "" {
		fmt.Fprintf(os.Stderr, "C17_DEBUG %s v%d k=%d %s dl=%q: returned=%v took=%v err=%v hit=%v\n", c.Op, c.Ver, c.K, c.Variant, c.DL, out.Returned, out.Took, res.err, p.hit)
	}
	if c.Variant == "stall" && out.Returned && out.Took > 80*time.Millisecond+2*time.Second {
		// it did return; how late is a matter of the load of the machine, not decidable here
		ev.Inconclusive("returned_late_after_deadline")
	}
	if !out.Returned {
		fail("c17/hang/"+sig, "the call did not return within its deadline + %v (waited %v)", hangSlack, out.Took)
		return
	}
	if out.Panic != nil {
		fail("c17/panic/"+sig, "the call panicked: %v", out.Panic)
		return
	}
	fx.mu.Lock()
	hit, negotiated := p.hit, p.version
	if hit && p.frame != nil && len(p.frame) != base.frame.Len {
		// judge by the frame that was actually cut
		fi := frameInfo{Len: len(p.frame), Fields: p.fields}
		if c.TKey == 1 {
			fi.Marks = fetchMarks(p.frame, p.fields)
		}
		base = &baseline{frame: fi, res: base.res, model: base.model}
		ev.Count("frame_differs_from_probe", 1)
	}
	fx.mu.Unlock()
	if !hit && c.DL == "op-before" {
		ev.Inconclusive("deadline_set_before_the_call_expired_before_the_stalled_exchange") // a starved process, nothing to judge
		return
	}
	if !hit {
		tb.Fatalf("harness: %s did not send %s #%d", c.Op, apiName(c.TKey), c.TIdx)
	}
	n := base.frame.Len
	// the operation got everything it reads only if the response cut is the last one it waits for
	final := c.TKey == op.key
	for _, tg := range op.targets {
		if tg.key == op.key && tg.idx > c.TIdx {
			final = false
		}
	}
	complete := c.K >= n && final
	labels := []string{"op:" + c.Op, "variant:" + c.Variant, "api:" + apiName(c.TKey)}
	if c.TKey != op.key || c.TIdx > 0 {
		labels = append(labels, fmt.Sprintf("target:%s#%d-inside-%s", apiName(c.TKey), c.TIdx, c.Op))
	}
	region, field := base.frame.regionOf(c.K)
	labels = append(labels, "region:"+region)
	if res.batch {
		// data returned before the error: exactly the first stored records
		if d := prefixOfModel(res.msgs, base.model); d != "" {
			fail("c17/fake-data/"+sig, "messages returned are not a prefix of the stored records: %s (%v)", d, res)
			return
		}
		if len(res.msgs) > 0 && !complete {
			labels = append(labels, "complete_records_before_error")
		}
	}
	if complete {
		// everything was delivered before the connection ended: same outcome as without fault
		same := errString(res.err) == errString(base.res.err) && res.data == base.res.data
		if res.batch {
			same = sameMessages(res.msgs, base.res.msgs) && res.failed() == base.res.failed()
		}
		if !same {
			fail("c17/complete-response-differs/"+sig, "the whole response was delivered, yet the outcome (%v) differs from the one without fault (%v)", res, base.res)
			return
		}
	} else {
		ok := res.failed()
		if !ok && res.single && len(res.msgs) == 1 {
			// one complete record was asked for and returned; whether the connection is retired is checked below
			ok = true
			labels = append(labels, "single_record_returned_without_error")
		}
		if !ok {
			fail("c17/no-error/"+sig, "the call reported no error: %v", res)
			return
		}
		if !res.batch && res.data != "" && res.err == nil {
			fail("c17/no-error/"+sig, "the call returned data without error: %v", res)
			return
		}
		recordsFrom := -1
		for _, f := range base.frame.Fields {
			if f.Kind == "records_size" && recordsFrom < 0 {
				recordsFrom = f.Off + f.Width
			}
		}
		// (ReadBatch itself reads up to the first batch / message header: only a stall well inside the record set happens under
		// the deadline that was set afterwards)
		if c.Op == "ReadBatchLateDeadline" && c.Variant == "stall" && recordsFrom >= 0 && c.K >= recordsFrom+80 && out.Took > 3*time.Second && ev.MachineLate(30*time.Second) < 200*time.Millisecond {
			// the deadline in force while the messages are read is the one set after ReadBatch returned (150 ms)
			fail("c17/late-deadline-not-honoured/"+sig, "the read deadline set after ReadBatch returned (150 ms ahead) did not end the stalled read: the call returned after %v (with the deadline set before it, 4 s)", out.Took)
			return
		}
		if out.Took > 2500*time.Millisecond {
			labels = append(labels, "returned_only_near_deadline")
			ev.SampleTagged("near-deadline", 3, map[string]any{"case": c, "took": out.Took.String(), "outcome": res.String(), "region": region})
		}
		// the connection is not used again: a later operation fails and writes nothing
		writtenBefore := clientWritten(fx, p.connID)
		if e.conn != nil {
			var lerr error
			e.conn.SetDeadline(time.Now().Add(60 * time.Millisecond))
			lo := guarded(hangSlack, func() { _, lerr = e.conn.ReadLastOffset() })
			if !lo.Returned {
				fail("c17/hang-after-cut/"+sig, "a later ReadLastOffset on the same Conn did not return")
				return
			}
			if lo.Panic != nil {
				fail("c17/panic-after-cut/"+sig, "a later ReadLastOffset on the same Conn panicked: %v", lo.Panic)
				return
			}
			if lerr == nil {
				fail("c17/conn-usable-after-cut/"+sig, "a later ReadLastOffset on the same Conn succeeded (first call: %v)", res)
				return
			}
		} else if !op.dials {
			tb.Fatalf("harness: no conn")
		}
		if op.dials && e.conn != nil {
			fail("c17/no-error/"+sig, "DialLeader returned a connection although the lookup response was cut")
			return
		}
		if w := clientWritten(fx, p.connID) - writtenBefore; w > 0 {
			labels = append(labels, "client_wrote_after_cut")
			if fail("c17/conn-reused-after-cut/"+sig, "the Conn was not closed after the failed call (%v): a later operation wrote %d bytes on the dead connection", res, w) {
				return
			}
		}
	}
	for _, v := range fx.cl.Violations() {
		fail("c17/malformed-request", "the fake broker rejected a request: %s", v)
		return
	}
	ev.Case(fmt.Sprintf("conn|%s|v%d|%s#%d|%s|%s", c.Op, negotiated, apiName(c.TKey), c.TIdx, c.Variant, field), c.K > 0 && !complete, labels...)
	ev.SampleTagged("conn:"+c.Op, 1, map[string]any{"case": c, "frame_len": n, "region": region, "outcome": res.String()})
}

// ---------------------------------------------------------------------------
// enumeration

type connGroup struct {
	c    connCase // K and Variant unset
	base *baseline
}

// enumerateGroup evaluates one (operation, version, target, log...) over cut
// positions and variants.
func enumerateGroup(tb ev.TB, g connCase, rnd func(n int) int, all bool) {
	op := connOps[g.Op]
	base := probe(tb, g)
	if base.absent {
		ev.Count("target_not_sent", 1)
		return
	}
	stride := 1
	if !all && op.fetch {
		stride = 3 // quick tier: fetch responses are sampled (edges, every field and batch boundary, every 3rd byte)
	}
	ks, exhaustive := positions(base.frame.Len, base.frame.bounds(), all, stride, ev.Scale(24, 256), rnd)
	if exhaustive {
		ev.Count("exhaustive_frames", 1)
	} else if base.frame.Len > smallFrame {
		ev.Count("large_frames_sampled", 1)
	}
	ev.InFlight("conn", g)
	readOnly := op.fetch
	var fx *fixture
	for i, k := range ks {
		c := g
		c.K, c.Variant = k, "eof"
		if readOnly {
			if fx == nil || fx.uses >= 200 {
				if fx != nil {
					fx.close()
				}
				fx = newFixture(c)
			}
			fx.uses++
		}
		evalConn(tb, c, base, fx)
		// RST instead of EOF: every 3rd position (all of them for small responses)
		if all || base.frame.Len <= 64 || i%3 == 0 {
			c.Variant = "rst"
			evalConn(tb, c, base, fx)
		}
	}
	if fx != nil {
		fx.close()
	}
	// stalled connection: a handful of positions (each costs the deadline), in parallel
	var stalls []int
	n := base.frame.Len
	for _, k := range []int{0, 3, 4, 7, 8, 9, n / 2, n - 1} {
		if k >= 0 && k < n {
			stalls = append(stalls, k)
		}
	}
	if !all {
		stalls = []int{0, 5}
		if n > 9 {
			stalls = append(stalls, 8+rnd(n-8))
		}
		if g.Op == "ReadBatchLateDeadline" && n > 40 {
			stalls = append(stalls, n/2, n-1) // inside the message set, which is read after ReadBatch has returned
		}
	}
	if op.dials && !all {
		stalls = stalls[:1]
	}
	var wg sync.WaitGroup
	var failed []string
	var fmu sync.Mutex
	for _, k := range stalls {
		if k >= n {
			continue
		}
		c := g
		c.K, c.Variant = k, "stall"
		variants := []connCase{c}
		if !op.dials && (writeOps[g.Op] || readOps[g.Op]) {
			c.DL = "op" // only the deadline of the operation's own direction is set
			variants = append(variants, c)
			if k == stalls[len(stalls)-1] || all {
				c.DL = "op-before" // ... and set before the call instead of while it runs
				variants = append(variants, c)
			}
		}
		for _, c := range variants {
			wg.Add(1)
			go func() {
				defer wg.Done()
				if msg := inGoroutine(func(tb ev.TB) { evalConn(tb, c, base, nil) }); msg != "" {
					fmu.Lock()
					failed = append(failed, msg)
					fmu.Unlock()
				}
			}()
		}
	}
	wg.Wait()
	if len(failed) > 0 {
		tb.Fatalf("%s", firstOracleFail(failed))
	}
}

func connGroups(thorough bool) []connCase {
	var out []connCase
	for _, name := range connOpOrder {
		op := connOps[name]
		vers := op.vers
		if vers == nil {
			vers = []int16{-1}
		}
		for _, v := range vers {
			for ti, tg := range op.targets {
				if !op.fetch {
					out = append(out, connCase{Op: name, Ver: v, TKey: tg.key, TIdx: tg.idx, LogName: "v2plain"})
					continue
				}
				for _, ln := range op.logs {
					if v < 4 && maxMagic(stdLog(ln)) > 1 {
						continue // old fetch versions: the broker would down-convert, the stored records are not what is sent
					}
					for _, st := range op.starts {
						for _, mb := range op.maxBytes {
							main := ti == 0
							implicitList := tg.key == 2
							if !main {
								// implicit requests: one representative log
								if ln != op.logs[0] || mb != op.maxBytes[0] {
									continue
								}
								if implicitList != (st == -1) {
									continue
								}
								if !implicitList && st != 0 {
									continue
								}
							}
							if main && st == 3 && ln == "v2big" {
								continue
							}
							if main && !thorough && mb != op.maxBytes[0] && st != 0 {
								continue
							}
							out = append(out, connCase{Op: name, Ver: v, TKey: tg.key, TIdx: tg.idx, LogName: ln, Start: st, MaxBytes: mb})
						}
					}
				}
			}
		}
	}
	return out
}

// TestConnOps: every Conn operation x version x response it reads x cut position.
func TestConnOps(t *testing.T) {
	idx, of := shard()
	var mine []connCase
	for i, g := range connGroups(tier()) {
		if i%of == idx {
			mine = append(mine, g)
		}
	}
	// groups are independent (own cluster each); most of the wall time is waiting for stall deadlines
	work := make(chan connCase)
	var wg sync.WaitGroup
	var fmu sync.Mutex
	var failed []string
	for w := 0; w < 6; w++ {
		wg.Add(1)
		go func() {
			defer wg.Done()
			for g := range work {
				rnd := newPrng("conn", g.Op, g.Ver, g.TKey, g.TIdx, g.LogName, g.Start, g.MaxBytes)
				if msg := inGoroutine(func(tb ev.TB) { enumerateGroup(tb, g, rnd.intn, tier()) }); msg != "" {
					fmu.Lock()
					failed = append(failed, msg)
					fmu.Unlock()
				}
			}
		}()
	}
	for _, g := range mine {
		fmu.Lock()
		stop := len(failed) > 0
		fmu.Unlock()
		if stop {
			break
		}
		work <- g
	}
	close(work)
	wg.Wait()
	if len(failed) > 0 {
		t.Fatalf("%s", firstOracleFail(failed))
	}
}

// TestConnFetchGenerated: fetch responses over generated logs (holes, empty
// batches, mixed formats, every codec); each check enumerates the cut positions
// of one response.
func TestConnFetchGenerated(t *testing.T) {
	n := 0
	rapid.Check(t, func(t *rapid.T) {
		n++
		ver := []int16{2, 5, 10}[n%3]
		o := logsim.Opts{MaxMagic: 2, MaxRecords: 10, MaxPerBatch: 4, Big: rapid.IntRange(0, 11).Draw(t, "big") == 0, Holes: true, EmptyBatch: true}
		if ver == 2 {
			o.MaxMagic = 1
		} else {
			o.MinMagic = int8(rapid.SampledFrom([]int{0, 1, 2, 2}).Draw(t, "minMagic"))
		}
		l := logsim.Gen(t, o)
		g := connCase{Op: rapid.SampledFrom([]string{"ReadBatch", "ReadBatch", "ReadBatch", "ReadBatchRead", "ConnReadMessage"}).Draw(t, "op"), Ver: ver, TKey: 1, Log: l.Batches}
		g.MaxBytes = rapid.SampledFrom([]int{1 << 20, 1 << 20, 60, 200, 700}).Draw(t, "maxBytes")
		// the last offset is excluded: a fetch at the end of the log is answered only after the long poll
		g.Start = int64(rapid.IntRange(0, int(l.End)-1).Draw(t, "start"))
		if g.Op == "ReadBatchRead" {
			// Batch.Read yields values only; holes make the positional comparison meaningless
			g.Start = 0
		}
		for _, lab := range l.Labels {
			ev.Label("log:" + lab)
		}
		enumerateGroup(t, g, func(n int) int {
			if n <= 1 {
				return 0
			}
			return rapid.IntRange(0, n-1).Draw(t, "k")
		}, tier())
	})
}
