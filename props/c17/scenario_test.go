package c17

import (
	"fmt"
	"sort"
	"strings"
	"testing"

	"pgregory.net/rapid"

	"verif/internal/ev"
	"verif/internal/logsim"
	"verif/internal/rsim"
	"verif/internal/wsim"
)

// ===========================================================================
// (3a) Reader scenarios: the n-th fetch response is cut at a drawn position

func init() {
	ev.Register("reader", func(tb ev.TB, c rsim.Case) { runReader(tb, c) })
	ev.Register("writer", func(tb ev.TB, c wsim.Case) { runWriter(tb, c) })
}

func runReader(tb ev.TB, c rsim.Case) (labels []string, cuts int) {
	res := rsim.Run(c)
	fail := func(sig, format string, args ...any) {
		reportFail(tb, "reader", sig, c, format+"\nfetch journal:\n%s", append(args, res.Describe())...)
	}
	if res.Failure != nil {
		fail("c17/reader/"+res.Failure.Sig, "%s", res.Failure.Msg)
		return nil, 0
	}
	for _, v := range res.Violations {
		fail("c17/malformed-request", "the fake broker rejected a request: %s", v)
		return nil, 0
	}
	lab := map[string]bool{}
	for k := range res.Labels {
		lab[k] = true
	}
	// a connection whose fetch response was cut carries nothing afterwards
	cutConn := map[int]int64{}
	for _, f := range res.Fetches {
		if seq, dead := cutConn[f.ConnID]; dead {
			fail("c17/reader-reused-connection", "fetch seq %d was sent on connection %d after its response seq %d had been cut", f.Seq, f.ConnID, seq)
			return nil, 0
		}
		if f.Outcome == "cut" {
			if f.CutAt < f.RespBytes {
				cutConn[f.ConnID] = f.Seq
				cuts++
				lab["cut:"+f.Region] = true
				if f.Fault.Rst {
					lab["cut:rst"] = true
				}
			} else {
				lab["cut:complete-then-eof"] = true
			}
		}
	}
	for _, ex := range res.Cluster.Journal() {
		if seq, dead := cutConn[ex.ConnID]; dead && ex.Seq > seq {
			fail("c17/reader-reused-connection", "%s seq %d was sent on connection %d after its fetch response seq %d had been cut", ex.ApiName, ex.Seq, ex.ConnID, seq)
			return nil, 0
		}
	}
	for _, cs := range res.Net.Conns() {
		if _, dead := cutConn[cs.ID]; dead && cs.ClientWroteAfterCut > 0 {
			fail("c17/reader-reused-connection", "%d bytes were written on connection %d after its fetch response had been cut", cs.ClientWroteAfterCut, cs.ID)
			return nil, 0
		}
	}
	if cuts > 0 && res.Delivered > 0 {
		lab["delivered_across_cuts"] = true
	}
	for k := range lab {
		labels = append(labels, k)
	}
	sort.Strings(labels)
	ev.Count("reader_messages_delivered", int64(res.Delivered))
	ev.Count("reader_cuts_mid_response", int64(cuts))
	return labels, cuts
}

func genReaderCase(t *rapid.T) rsim.Case {
	c := rsim.Case{
		FetchMax:  rapid.SampledFrom([]int16{2, 5, 10, 11}).Draw(t, "fetchMax"),
		Brokers:   rapid.IntRange(1, 2).Draw(t, "brokers"),
		MinBytes:  1,
		MaxWaitMs: rapid.IntRange(150, 300).Draw(t, "maxWaitMs"),
		QueueCap:  rapid.SampledFrom([]int{1, 2, 100}).Draw(t, "queueCap"),
		StartOff:  -1,
	}
	o := logsim.Opts{MaxMagic: 2, MaxRecords: 30, MaxPerBatch: 5, Big: rapid.IntRange(0, 11).Draw(t, "big") == 0, Holes: true, EmptyBatch: true}
	if c.FetchMax == 2 {
		o.MaxMagic = 1
	} else {
		o.MinMagic = int8(rapid.SampledFrom([]int{0, 1, 2, 2}).Draw(t, "minMagic"))
	}
	l := logsim.Gen(t, o)
	c.Log = l.Batches
	switch rapid.IntRange(0, 2).Draw(t, "maxBytesKind") {
	case 0:
		c.MaxBytes = rapid.IntRange(40, 300).Draw(t, "maxBytesSmall") // one batch (and a partial one) per response: many fetches
	case 1:
		c.MaxBytes = rapid.IntRange(300, 2000).Draw(t, "maxBytesMid")
	default:
		c.MaxBytes = 1 << 20
	}
	c.Chunk = rapid.SampledFrom([]int{0, 0, 1, 7, 100}).Draw(t, "chunk")
	if rapid.IntRange(0, 3).Draw(t, "startKind") == 0 {
		c.StartOff = int64(rapid.IntRange(0, int(l.End)-1).Draw(t, "startOff"))
	}
	if rapid.IntRange(0, 2).Draw(t, "append") == 0 {
		o2 := o
		o2.Start, o2.MaxRecords = l.End, 10
		o2.MinMagic = l.Batches[len(l.Batches)-1].Magic
		l2 := logsim.Gen(t, o2)
		c.Appends = append(c.Appends, rsim.Append{After: rapid.IntRange(0, len(l.Records)).Draw(t, "appendAfter"), Batches: l2.Batches})
	}
	nf := rapid.IntRange(2, 10).Draw(t, "nFaults")
	for i := 0; i < nf; i++ {
		f := rsim.Fault{Kind: rapid.SampledFrom([]string{"ok", "cut", "cut", "cut"}).Draw(t, "fault")}
		if f.Kind == "cut" {
			f.Region = rapid.SampledFrom([]string{"prefix", "header", "records", "records", "batch", "batch", "full"}).Draw(t, "region")
			f.PerMille = rapid.IntRange(0, 999).Draw(t, "perMille")
			f.Rst = rapid.IntRange(0, 3).Draw(t, "rst") == 0
		}
		c.Faults = append(c.Faults, f)
	}
	return c
}

func TestReaderScenario(t *testing.T) {
	rapid.Check(t, func(t *rapid.T) {
		c := genReaderCase(t)
		ev.InFlight("reader", c)
		labels, cuts := runReader(t, c)
		kinds := map[string]int{}
		for _, f := range c.Faults {
			kinds[f.Kind+"/"+f.Region]++
		}
		ev.Case(fmt.Sprintf("reader v%d mb%d q%d batches%d start%d %v %v", c.FetchMax, c.MaxBytes, c.QueueCap, len(c.Log), c.StartOff, kinds, labels), cuts > 0, prefixed("reader:", labels)...)
		ev.SampleTagged("reader", 1, map[string]any{"fetch_max": c.FetchMax, "max_bytes": c.MaxBytes, "batches": len(c.Log), "faults": c.Faults, "labels": labels})
	})
}

func prefixed(p string, ls []string) []string {
	out := make([]string, len(ls))
	for i, l := range ls {
		out[i] = p + l
	}
	return out
}

// ===========================================================================
// (3b) Writer scenarios: the n-th produce response is cut at a drawn position

func lessID(a, b wsim.ID) bool {
	if a.Call != b.Call {
		return a.Call < b.Call
	}
	return a.Index < b.Index
}

func setKey(ids []wsim.ID) string {
	s := make([]string, len(ids))
	for i, id := range ids {
		s[i] = id.String()
	}
	sort.Strings(s)
	return strings.Join(s, ",")
}

func runWriter(tb ev.TB, c wsim.Case) (labels []string, cuts int) {
	res := wsim.Run(c)
	fail := func(sig, format string, args ...any) {
		var b strings.Builder
		for _, p := range res.Produces {
			fmt.Fprintf(&b, "  produce seq%d v%d %s/%d ids=%v fault=%q outcome=%s applied=%v acked=%v\n", p.Seq, p.Version, p.Topic, p.Partition, p.IDs, p.Fault, p.Outcome, p.Applied, p.Acked)
		}
		for _, call := range res.Calls {
			fmt.Fprintf(&b, "  call %v n=%d err=%v\n", call.ID, call.N, call.Err)
		}
		s := b.String()
		if len(s) > 5000 {
			s = s[:5000] + "…"
		}
		reportFail(tb, "writer", sig, c, format+"\n%s", append(args, s)...)
	}
	if res.CloseHung {
		ev.Inconclusive("writer_close_hung") // C09 owns liveness of Close
		return nil, 0
	}
	for _, v := range res.Violations {
		fail("c17/malformed-request", "the fake broker rejected a request: %s", v)
		return nil, 0
	}
	lab := map[string]bool{}
	// C01's duplicate rule: once a request carrying m was acknowledged to the client, m is never sent again
	acked := map[wsim.ID]int64{}
	applied := map[wsim.ID]int{}
	for _, p := range res.Produces {
		for _, id := range p.IDs {
			if seq, ok := acked[id]; ok {
				fail("c17/writer/resend-after-ack", "message %v was sent again (seq %d) after the broker's acknowledgement (seq %d) had been delivered completely", id, p.Seq, seq)
				return nil, 0
			}
		}
		for _, id := range p.IDs {
			if p.Applied {
				applied[id]++
			}
			if p.Acked {
				acked[id] = p.Seq
			}
		}
	}
	for id, n := range applied {
		if n > 1 {
			lab["duplicate_after_lost_ack"] = true
			_ = id
		}
	}
	// no loss: a call that reported success has every message acknowledged (hence stored)
	inLog := map[wsim.ID]int{}
	for _, parts := range res.Logs {
		for _, recs := range parts {
			for _, r := range recs {
				if id, ok := wsim.ParseID(r.Value); ok {
					inLog[id]++
				}
			}
		}
	}
	completed := map[wsim.ID]error{}
	for _, comp := range res.Completions {
		for _, id := range comp.IDs {
			completed[id] = comp.Err
		}
	}
	for _, call := range res.Calls {
		for i := 0; i < call.N; i++ {
			id := wsim.ID{Caller: call.ID[0], Call: call.ID[1], Index: i}
			ok := call.Err == nil && !c.Async
			if call.IsWriteEs && i < len(call.PerMsg) && call.PerMsg[i] == nil {
				ok = true
			}
			if c.Async {
				if e, done := completed[id]; done && e == nil {
					ok = true
				}
			}
			if ok && inLog[id] == 0 {
				fail("c17/writer/lost", "message %v was reported written but is not in the log", id)
				return nil, 0
			}
			if inLog[id] != applied[id] {
				tb.Fatalf("harness: message %v is %d times in the log but %d applied requests carried it", id, inLog[id], applied[id])
			}
		}
	}
	// C07's order rule
	type pk struct {
		t string
		p int32
	}
	appliedReqs := map[pk][]wsim.ProduceSeen{}
	for _, p := range res.Produces {
		if p.Applied {
			k := pk{p.Topic, p.Partition}
			appliedReqs[k] = append(appliedReqs[k], p)
		}
	}
	for k, reqs := range appliedReqs {
		lastKey := ""
		closed := map[string]bool{}
		seen := map[wsim.ID]bool{}
		last := map[int]wsim.ID{}
		for _, r := range reqs {
			key := setKey(r.IDs)
			if key != lastKey {
				if closed[key] {
					fail("c17/writer/copy-after-successor", "partition %s/%d: a copy of batch {%s} (seq %d) was appended after a later batch had been appended", k.t, k.p, key, r.Seq)
					return nil, 0
				}
				if lastKey != "" {
					closed[lastKey] = true
				}
				lastKey = key
			}
			inBatch := map[int]wsim.ID{}
			for _, id := range r.IDs {
				if prev, ok := inBatch[id.Caller]; ok && !lessID(prev, id) {
					fail("c17/writer/order-inside-batch", "partition %s/%d request seq %d carries %v after %v of the same submitter", k.t, k.p, r.Seq, id, prev)
					return nil, 0
				}
				inBatch[id.Caller] = id
				if seen[id] {
					continue
				}
				seen[id] = true
				if prev, ok := last[id.Caller]; ok && !lessID(prev, id) {
					fail("c17/writer/log-order", "partition %s/%d: message %v of submitter %d was appended after its later message %v", k.t, k.p, id, id.Caller, prev)
					return nil, 0
				}
				last[id.Caller] = id
			}
		}
	}
	// the connection of a cut (or unanswered) produce response carries nothing afterwards
	dead := map[int]int64{}
	for _, ex := range res.Cluster.Journal() {
		if seq, d := dead[ex.ConnID]; d {
			fail("c17/writer-reused-connection", "%s seq %d was sent on connection %d after its produce response seq %d had been cut", ex.ApiName, ex.Seq, ex.ConnID, seq)
			return nil, 0
		}
		if ex.ApiKey != 0 {
			continue
		}
		switch {
		case ex.Outcome == "cut" && ex.CutAt < ex.RespBytes:
			dead[ex.ConnID] = ex.Seq
			cuts++
			switch {
			case ex.CutAt < 4:
				lab["cut:size-prefix"] = true
			case ex.CutAt < 8:
				lab["cut:header"] = true
			default:
				lab["cut:body"] = true
			}
		case ex.Outcome == "cut":
			lab["cut:complete-then-eof"] = true
		case ex.Outcome == "dropped-after":
			dead[ex.ConnID] = ex.Seq
			lab["lost-ack"] = true
		}
	}
	for _, cs := range res.Net.Conns() {
		if _, d := dead[cs.ID]; d && cs.ClientWroteAfterCut > 0 {
			fail("c17/writer-reused-connection", "%d bytes were written on connection %d after its produce response had been cut", cs.ClientWroteAfterCut, cs.ID)
			return nil, 0
		}
	}
	retried := false
	seenSet := map[string]bool{}
	for _, p := range res.Produces {
		key := fmt.Sprintf("%s/%d/%s", p.Topic, p.Partition, setKey(p.IDs))
		if seenSet[key] {
			retried = true
		}
		seenSet[key] = true
	}
	if retried && cuts > 0 {
		lab["retry_after_cut"] = true
	}
	if c.Async {
		lab["async"] = true
	}
	if c.Compression != 0 {
		lab["compressed"] = true
	}
	for k := range lab {
		labels = append(labels, k)
	}
	sort.Strings(labels)
	ev.Count("writer_cuts_mid_response", int64(cuts))
	return labels, cuts
}

func TestWriterScenario(t *testing.T) {
	n := 0
	rapid.Check(t, func(t *rapid.T) {
		n++
		bias := wsim.BiasFaults
		if n%2 == 0 {
			bias = wsim.BiasOrder
		}
		c := wsim.GenCase(t, bias, -1)
		// the fault script of this property: cuts at drawn positions (mixed with a few other faults kept from the generator)
		nf := rapid.IntRange(2, 12).Draw(t, "nCuts")
		var faults []wsim.Fault
		for i := 0; i < nf; i++ {
			var f wsim.Fault
			switch rapid.IntRange(0, 9).Draw(t, "kind") {
			case 0:
				f = wsim.Fault{Kind: "ok"}
			case 1:
				f = wsim.Fault{Kind: "lost-ack"}
			case 2:
				f = wsim.Fault{Kind: "temp", Code: 6}
			default:
				f = wsim.Fault{Kind: "cut"}
				switch rapid.IntRange(0, 4).Draw(t, "region") {
				case 0:
					f.CutAt = rapid.IntRange(0, 3).Draw(t, "cutPrefix")
				case 1:
					f.CutAt = rapid.IntRange(4, 8).Draw(t, "cutHeader")
				case 2:
					f.CutAt = 500 // everything, then the connection ends
				default:
					f.CutAt = rapid.IntRange(8, 90).Draw(t, "cutBody")
				}
			}
			faults = append(faults, f)
		}
		c.Faults = faults
		if c.MaxAttempts < 2 {
			c.MaxAttempts = rapid.IntRange(2, 5).Draw(t, "attempts")
		}
		ev.InFlight("writer", c)
		labels, cuts := runWriter(t, c)
		kinds := map[string]int{}
		for _, f := range c.Faults {
			kinds[f.Kind]++
		}
		ev.Case(fmt.Sprintf("writer b%d p%v v%d bs%d a%d c%d async%v %s callers%d f%v l%v", c.Brokers, c.Partitions, c.ProduceMax, c.BatchSize, c.Acks, c.Compression, c.Async, c.Balancer, len(c.Callers), kinds, labels), cuts > 0, prefixed("writer:", labels)...)
		ev.SampleTagged("writer", 1, c)
	})
}
