// Package c17 decides property C17: a response cut off at any byte yields an
// error, never a panic, hang or fake data; the affected connection is not used
// again and Reader/Writer continue on a new one without loss, duplication
// (beyond C01's retry rule) or reordering.
package c17

import (
	"encoding/binary"
	"fmt"
	"os"
	"sort"
	"strconv"
	"strings"
	"sync"
	"testing"
	"time"

	"verif/internal/ev"
	"verif/refcodec"
)

func TestMain(m *testing.M) { ev.Main(m, "C17") }

func TestReplay(t *testing.T) { ev.RunReplay(t) }

const topic = "t"

// ---------------------------------------------------------------------------
// shards of plain enumerations

func shard() (index, of int) {
	index, _ = strconv.Atoi(os.Getenv("VERIF_SHARD_INDEX"))
	of, _ = strconv.Atoi(os.Getenv("VERIF_SHARDS"))
	if of < 1 {
		of = 1
	}
	return index % of, of
}

// prng is a tiny deterministic generator (splitmix64) for the sampled cut
// positions of plain enumerations; it is seeded from VERIF_SEED and the name
// of the thing enumerated, never from the clock.
type prng uint64

func newPrng(parts ...any) *prng {
	h := uint64(ev.Seed())*0x9e3779b97f4a7c15 + 0x1234567
	for _, b := range []byte(fmt.Sprint(parts...)) {
		h = (h ^ uint64(b)) * 0x100000001b3
	}
	p := prng(h)
	return &p
}

func (p *prng) next() uint64 {
	*p += 0x9e3779b97f4a7c15
	z := uint64(*p)
	z = (z ^ (z >> 30)) * 0xbf58476d1ce4e5b9
	z = (z ^ (z >> 27)) * 0x94d049bb133111eb
	return z ^ (z >> 31)
}

func (p *prng) intn(n int) int {
	if n <= 0 {
		return 0
	}
	return int(p.next() % uint64(n))
}

// ---------------------------------------------------------------------------
// frames: regions and cut positions

// mark is a named position inside a frame (start of a region).
type mark struct {
	Off  int
	Name string
}

// frameInfo describes one well-formed response frame.
type frameInfo struct {
	Len    int
	Fields []refcodec.LenField
	Marks  []mark // additional region starts (record sets), sorted by offset
}

// recordMarks parses the top level of a raw record set that starts at base
// inside the frame and names its regions.  It only reads the framing fields
// (offset, length, magic, attributes); anything odd ends the walk.
func recordMarks(raw []byte, base int) []mark {
	var out []mark
	p := 0
	for p < len(raw) {
		if len(raw)-p < 12 {
			out = append(out, mark{base + p, "records/partial-tail"})
			break
		}
		size := int(int32(binary.BigEndian.Uint32(raw[p+8:])))
		end := p + 12 + size
		partial := end > len(raw) || size < 0
		if partial {
			end = len(raw)
		}
		name := "records/batch-prefix"
		if partial {
			name = "records/partial-tail"
		}
		out = append(out, mark{base + p, name})
		if !partial && len(raw)-p >= 17 {
			magic := raw[p+16]
			switch {
			case magic == 2 && size >= 49:
				attr := binary.BigEndian.Uint16(raw[p+21:])
				out = append(out, mark{base + p + 12, "records/v2-header"})
				if attr&7 != 0 {
					out = append(out, mark{base + p + 61, "records/v2-compressed-payload"})
				} else {
					out = append(out, mark{base + p + 61, "records/v2-records"})
				}
			case magic <= 1:
				hdr := 12 + 4 + 1 + 1
				if magic == 1 {
					hdr += 8
				}
				attr := raw[p+17]
				out = append(out, mark{base + p + 12, fmt.Sprintf("records/v%d-header", magic)})
				if p+hdr <= end {
					if attr&7 != 0 {
						out = append(out, mark{base + p + hdr, fmt.Sprintf("records/v%d-compressed-wrapper", magic)})
					} else {
						out = append(out, mark{base + p + hdr, fmt.Sprintf("records/v%d-key-value", magic)})
					}
				}
			}
		}
		p = end
	}
	return out
}

// fetchMarks finds the record sets of a fetch response frame through the
// records_size entries of the field map.
func fetchMarks(frame []byte, fields []refcodec.LenField) []mark {
	var out []mark
	for _, f := range fields {
		if f.Kind != "records_size" || f.Value <= 0 {
			continue
		}
		start := f.Off + f.Width
		end := start + int(f.Value)
		if end > len(frame) {
			end = len(frame)
		}
		out = append(out, recordMarks(frame[start:end], start)...)
		out = append(out, mark{end, "after-records"})
	}
	sort.SliceStable(out, func(i, j int) bool { return out[i].Off < out[j].Off })
	return out
}

// regionOf names the region of the frame in which the connection ends after k
// delivered bytes (the byte at offset k is the first one missing) and the
// nearest field of the field map (for the fingerprint).
func (fi *frameInfo) regionOf(k int) (region, field string) {
	switch {
	case k >= fi.Len:
		return "complete", "end"
	case k < 4:
		return "size-prefix", "frame_size"
	case k < 8:
		return "header", "correlation_id"
	}
	region, field = "body", "body"
	for i := range fi.Fields {
		f := &fi.Fields[i]
		if f.Off > k {
			break
		}
		if f.Kind == "frame_size" {
			continue
		}
		name := f.Path + "@" + f.Kind
		if strings.HasPrefix(f.Path, "header") {
			region = "header"
		} else if k < f.Off+f.Width {
			region = "body/in-length-field"
		} else {
			region = "body"
		}
		if k < f.Off+f.Width {
			field = "in:" + name
		} else {
			field = "after:" + name
		}
	}
	batch, last := 0, ""
	for _, m := range fi.Marks {
		if m.Off > k {
			break
		}
		if m.Name == "after-records" {
			last = ""
			continue
		}
		if m.Name == "records/batch-prefix" || m.Name == "records/partial-tail" {
			batch++
		}
		last = m.Name
	}
	if last != "" {
		region, field = last, fmt.Sprintf("%s|batch%d:%s", field, batch, last)
	}
	return region, field
}

// bounds lists the offsets at which a field of the field map or a record-set
// region starts or ends.
func (fi *frameInfo) bounds() []int {
	var b []int
	for _, f := range fi.Fields {
		b = append(b, f.Off, f.Off+f.Width)
		if (f.Kind == "string" || f.Kind == "bytes" || f.Kind == "compact_string" || f.Kind == "compact_bytes") && f.Value > 0 {
			b = append(b, f.Off+f.Width+int(f.Value))
		}
	}
	for _, m := range fi.Marks {
		b = append(b, m.Off)
	}
	return b
}

const smallFrame = 4096

// positions selects the cut positions of a frame of n bytes.  all=true (the
// thorough tier) takes every k of a frame <= 4 KiB; otherwise every k of the
// first and last bytes, every field boundary +-1 and a stride; frames above
// 4 KiB: first and last 512 bytes, boundaries +-1 and `samples` drawn ones.
func positions(n int, bounds []int, all bool, stride int, samples int, draw func(n int) int) (ks []int, exhaustive bool) {
	if n <= smallFrame && (all || stride <= 1) {
		for k := 0; k <= n; k++ {
			ks = append(ks, k)
		}
		return ks, true
	}
	set := map[int]bool{}
	add := func(k int) {
		if k >= 0 && k <= n {
			set[k] = true
		}
	}
	edge := 512
	if n <= smallFrame {
		edge = 24
	}
	for k := 0; k <= edge; k++ {
		add(k)
		add(n - k)
	}
	for _, b := range bounds {
		add(b - 1)
		add(b)
		add(b + 1)
	}
	if n <= smallFrame {
		phase := draw(stride)
		for k := phase; k <= n; k += stride {
			add(k)
		}
	}
	for i := 0; i < samples; i++ {
		add(draw(n + 1))
	}
	for k := range set {
		ks = append(ks, k)
	}
	sort.Ints(ks)
	return ks, false
}

// ---------------------------------------------------------------------------
// running a library call under a watchdog

type callOutcome struct {
	Returned bool
	Panic    any
	Took     time.Duration
}

// guarded runs f in its own goroutine; it reports whether f returned within
// limit and whether it panicked (a panic inside a library goroutine cannot be
// recovered here: it kills the process and is attributed through ev.InFlight).
func guarded(limit time.Duration, f func()) callOutcome {
	done := make(chan any, 1)
	start := time.Now()
	go func() {
		defer func() { done <- recover() }()
		f()
	}()
	t := time.NewTimer(limit)
	defer t.Stop()
	select {
	case p := <-done:
		return callOutcome{Returned: true, Panic: p, Took: time.Since(start)}
	case <-t.C:
	}
	// The limit has passed on the wall clock.  A process that was frozen meanwhile (a snapshot of the machine, a stopped
	// container) finds the timer expired the moment it wakes up, before the call had a chance to run on: the call gets three
	// more seconds of time that this process demonstrably had (thirty sleeps of 100 ms that did return).
	for i := 0; i < 30; i++ {
		select {
		case p := <-done:
			return callOutcome{Returned: true, Panic: p, Took: time.Since(start)}
		case <-time.After(100 * time.Millisecond):
		}
	}
	return callOutcome{Took: time.Since(start)}
}

func errString(err error) string {
	if err == nil {
		return "<nil>"
	}
	return err.Error()
}

func tier() (thorough bool) { return ev.Tier() == "thorough" }

// reportFail serialises ev.Fail: evaluations run on several goroutines and the
// replay file of a failure must be written by one of them only.
var (
	failMu     sync.Mutex
	failedOnce bool
)

func reportFail(tb ev.TB, kind, sig string, cas any, format string, args ...any) bool {
	if _, pooled := tb.(*capTB); !pooled {
		// the test goroutine itself (rapid re-evaluates while shrinking: every failure is recorded)
		return ev.Fail(tb, kind, sig, cas, format, args...)
	}
	failMu.Lock()
	defer failMu.Unlock()
	if _, known := ev.IsKnown(sig); !known {
		if failedOnce {
			tb.Fatalf("another evaluation of this process already failed (this one: %s)", sig)
			return true
		}
		failedOnce = true
	}
	return ev.Fail(tb, kind, sig, cas, format, args...)
}

// capTB lets an evaluation run outside the test goroutine: Fatalf unwinds the
// evaluation and the message is re-raised by the caller in the test goroutine.
type capTB struct{ msg string }

type capStop struct{}

func (c *capTB) Fatalf(format string, args ...any) {
	c.msg = fmt.Sprintf(format, args...)
	panic(capStop{})
}
func (c *capTB) Logf(string, ...any) {}
func (c *capTB) Helper()             {}

func inGoroutine(f func(tb ev.TB)) (failure string) {
	c := &capTB{}
	defer func() {
		if p := recover(); p != nil {
			if _, ok := p.(capStop); !ok {
				panic(p)
			}
			failure = c.msg
		}
	}()
	f(c)
	return ""
}

// hangSlack is how long after its deadline a call may take to return before it
// is reported as hanging (generous: the machine is shared).
const hangSlack = 10 * time.Second

func firstOracleFail(msgs []string) string {
	for _, m := range msgs {
		if strings.Contains(m, "ORACLE-FAIL") {
			return m
		}
	}
	return msgs[0]
}
