package c17

import (
	"context"
	"encoding/binary"
	"encoding/hex"
	"fmt"
	"io"
	"reflect"
	"sync"
	"testing"
	"time"

	kafka "github.com/segmentio/kafka-go"
	"github.com/segmentio/kafka-go/protocol"
	"github.com/segmentio/kafka-go/protocol/saslauthenticate"
	"pgregory.net/rapid"

	"verif/fakecluster"
	"verif/internal/ev"
	"verif/internal/libtypes"
	"verif/memnet"
	"verif/refcodec"
)

// ===========================================================================
// (2a) kafka.Client calls through kafka.Transport against the fake cluster

type clientCase struct {
	Op      string `json:"op"`
	Ver     int16  `json:"ver"`          // highest version of the operation's API the brokers advertise
	TKey    int16  `json:"target_key"`   // api key of the response that is cut
	TIdx    int    `json:"target_index"` // index among the requests of that key the call causes (handshakes not counted)
	Shake   bool   `json:"handshake"`    // the response cut is the ApiVersions handshake of the connection the call opens
	K       int    `json:"k"`
	Variant string `json:"variant"` // eof rst stall
}

func init() { ev.Register("client", func(tb ev.TB, c clientCase) { runClient(tb, c, nil) }) }

type clientOp struct {
	name    string
	key     int16
	targets []target // every response the call waits for (handshakes excluded), in order; the last one of key `key` is final
	shake   bool     // the call goes to a partition leader / coordinator / controller connection that a failure makes it re-open
	call    func(ctx context.Context, s *clientSetup, seq int) (string, error)
}

type clientSetup struct {
	nw     *memnet.Network
	cl     *fakecluster.Cluster
	tr     *kafka.Transport
	client *kafka.Client
	mu     sync.Mutex
	// fault plan
	armed    bool
	key      int16
	idx      int
	shake    bool
	mode     string
	k        int
	seen     map[int16]int
	perConn  map[int]int
	silent   map[int]bool
	hitConn  int
	hitSeq   int64
	hitLen   int
	hitFrame []byte
	hitField []refcodec.LenField
	hitVer   int16
	onHit    func()
}

func (s *clientSetup) arm(c clientCase, mode string) {
	s.mu.Lock()
	s.armed, s.key, s.idx, s.shake, s.mode, s.k = true, c.TKey, c.TIdx, c.Shake, mode, c.K
	s.seen = map[int16]int{}
	s.hitConn, s.hitSeq, s.hitLen, s.hitFrame, s.hitField = 0, 0, 0, nil, nil
	s.mu.Unlock()
}

func (s *clientSetup) disarm() {
	s.mu.Lock()
	s.armed = false
	s.mu.Unlock()
}

func (s *clientSetup) hook(cl *fakecluster.Cluster, r *fakecluster.Request) *fakecluster.Action {
	s.mu.Lock()
	defer s.mu.Unlock()
	first := s.perConn[r.ConnID] == 0
	s.perConn[r.ConnID]++
	if s.silent[r.ConnID] {
		return &fakecluster.Action{NoResponse: true, Tag: "c17-silent"}
	}
	if !s.armed {
		return nil
	}
	handshake := first && r.ApiKey == 18
	if s.shake {
		if !handshake {
			return nil
		}
	} else {
		if handshake {
			return nil
		}
		i := s.seen[r.ApiKey]
		s.seen[r.ApiKey]++
		if r.ApiKey != s.key || i != s.idx {
			return nil
		}
	}
	s.armed = false
	s.hitConn, s.hitSeq, s.hitVer = r.ConnID, r.Seq, r.Version
	if s.onHit != nil {
		s.onHit()
		s.onHit = nil
	}
	act := &fakecluster.Action{Tag: "c17-" + s.mode}
	capture := func(body map[string]any) {
		fr, fields, err := refcodec.EncodeResponse(r.API, r.Version, r.Corr, body, nil)
		if err != nil {
			panic(fmt.Sprintf("harness: cannot encode the response: %v", err))
		}
		s.mu.Lock()
		s.hitFrame, s.hitField, s.hitLen = fr, fields, len(fr)
		s.mu.Unlock()
	}
	switch s.mode {
	case "probe":
		act.Mutate = capture
	case "eof", "rst":
		act.CutResponse, act.CutResponseAt, act.Rst = true, s.k, s.mode == "rst"
		act.Mutate = capture
	case "stall":
		s.silent[r.ConnID] = true
		r.Conn.MarkDead()
		k := s.k
		act.Mutate = func(body map[string]any) {
			capture(body)
			s.mu.Lock()
			fr := s.hitFrame
			s.mu.Unlock()
			if k > len(fr) {
				k = len(fr)
			}
			act.RawResponse = append([]byte{}, fr[:k]...)
		}
	}
	return act
}

func newClientSetup(c clientCase) *clientSetup {
	op := clientOps[c.Op]
	s := &clientSetup{nw: memnet.New(), perConn: map[int]int{}, silent: map[int]bool{}, seen: map[int16]int{}}
	s.cl = fakecluster.New(s.nw, 2)
	s.cl.CreateTopic(topic, 1) // led by broker 1
	s.cl.AppendBatches(topic, 0, stdLog("v2codecs")...)
	s.cl.SetCoordinator("g", 2)
	s.cl.SetCoordinator("tx", 2)
	s.cl.SetCommitted("g", topic, 0, 3)
	if c.Ver >= 0 {
		s.cl.SetVersions(0, op.key, 0, c.Ver)
	}
	s.cl.SetHook(s.hook)
	ttl := time.Hour
	if op.key == 3 {
		ttl = 40 * time.Millisecond
	}
	s.tr = &kafka.Transport{Dial: s.nw.Dial, ClientID: "c17", MetadataTTL: ttl, DialTimeout: 2 * time.Second, IdleTimeout: time.Minute}
	s.client = &kafka.Client{Addr: kafka.TCP("b1.fake:9092"), Transport: s.tr}
	return s
}

func (s *clientSetup) close() {
	s.tr.CloseIdleConnections()
	s.cl.Close()
}

var clientOps = map[string]*clientOp{}
var clientOpOrder []string

func addClientOp(o *clientOp) {
	clientOps[o.name] = o
	clientOpOrder = append(clientOpOrder, o.name)
}

func init() {
	addClientOp(&clientOp{name: "ListOffsets", key: 2, targets: []target{{2, 0}, {2, 1}},
		call: func(ctx context.Context, s *clientSetup, seq int) (string, error) {
			r, err := s.client.ListOffsets(ctx, &kafka.ListOffsetsRequest{Topics: map[string][]kafka.OffsetRequest{topic: {kafka.FirstOffsetOf(0), kafka.LastOffsetOf(0)}}})
			if err != nil {
				return "", err
			}
			for _, p := range r.Topics[topic] {
				if p.Error != nil {
					// the outcome of a partition whose request failed is reported in the partition
					return "", fmt.Errorf("partition %d: %w", p.Partition, p.Error)
				}
			}
			return fmt.Sprintf("%+v", r.Topics), nil
		}})
	addClientOp(&clientOp{name: "ListOffsetsOne", key: 2, shake: true, targets: []target{{2, 0}},
		call: func(ctx context.Context, s *clientSetup, seq int) (string, error) {
			r, err := s.client.ListOffsets(ctx, &kafka.ListOffsetsRequest{Topics: map[string][]kafka.OffsetRequest{topic: {kafka.LastOffsetOf(0)}}})
			if err != nil {
				return "", err
			}
			for _, p := range r.Topics[topic] {
				if p.Error != nil {
					return "", fmt.Errorf("partition %d: %w", p.Partition, p.Error)
				}
			}
			return fmt.Sprintf("%+v", r.Topics), nil
		}})
	addClientOp(&clientOp{name: "Fetch", key: 1, shake: true, targets: []target{{1, 0}},
		call: func(ctx context.Context, s *clientSetup, seq int) (string, error) {
			r, err := s.client.Fetch(ctx, &kafka.FetchRequest{Topic: topic, Partition: 0, Offset: 2, MinBytes: 1, MaxBytes: 1 << 20, MaxWait: 50 * time.Millisecond})
			if err != nil {
				return "", err
			}
			if r.Error != nil {
				return "", r.Error
			}
			out := fmt.Sprintf("hw=%d start=%d:", r.HighWatermark, r.LogStartOffset)
			for {
				rec, err := r.Records.ReadRecord()
				if err != nil {
					if err == io.EOF {
						break
					}
					return "", fmt.Errorf("reading records: %w", err)
				}
				k, _ := kafka.ReadAll(rec.Key)
				v, _ := kafka.ReadAll(rec.Value)
				out += fmt.Sprintf(" [%d %q %q %d %v]", rec.Offset, k, v, rec.Time.UnixMilli(), rec.Headers)
			}
			return out, nil
		}})
	addClientOp(&clientOp{name: "Produce", key: 0, shake: true, targets: []target{{0, 0}},
		call: func(ctx context.Context, s *clientSetup, seq int) (string, error) {
			r, err := s.client.Produce(ctx, &kafka.ProduceRequest{Topic: topic, Partition: 0, RequiredAcks: kafka.RequireAll,
				Records: kafka.NewRecordReader(kafka.Record{Key: kafka.NewBytes([]byte("pk")), Value: kafka.NewBytes([]byte("produced")), Time: time.UnixMilli(1600000003000)})})
			if err != nil {
				return "", err
			}
			if r.Error != nil {
				return "", r.Error
			}
			return "produced", nil // the base offset moves with every applied request
		}})
	addClientOp(&clientOp{name: "Metadata", key: 3, targets: []target{{3, 0}},
		call: func(ctx context.Context, s *clientSetup, seq int) (string, error) {
			r, err := s.client.Metadata(ctx, &kafka.MetadataRequest{Topics: []string{topic}})
			if err != nil {
				return "", err
			}
			return fmt.Sprintf("%+v %+v %+v", r.Brokers, r.Controller, r.Topics), nil
		}})
	addClientOp(&clientOp{name: "FindCoordinator", key: 10, targets: []target{{10, 0}},
		call: func(ctx context.Context, s *clientSetup, seq int) (string, error) {
			r, err := s.client.FindCoordinator(ctx, &kafka.FindCoordinatorRequest{Key: "g", KeyType: kafka.CoordinatorKeyTypeConsumer})
			if err != nil {
				return "", err
			}
			if r.Error != nil {
				return "", r.Error
			}
			return fmt.Sprintf("%+v", *r.Coordinator), nil
		}})
	addClientOp(&clientOp{name: "OffsetFetch", key: 9, shake: true, targets: []target{{10, 0}, {9, 0}},
		call: func(ctx context.Context, s *clientSetup, seq int) (string, error) {
			r, err := s.client.OffsetFetch(ctx, &kafka.OffsetFetchRequest{GroupID: "g", Topics: map[string][]int{topic: {0}}})
			if err != nil {
				return "", err
			}
			if r.Error != nil {
				return "", r.Error
			}
			return fmt.Sprintf("%+v", r.Topics), nil
		}})
	addClientOp(&clientOp{name: "OffsetCommit", key: 8, targets: []target{{10, 0}, {8, 0}},
		call: func(ctx context.Context, s *clientSetup, seq int) (string, error) {
			r, err := s.client.OffsetCommit(ctx, &kafka.OffsetCommitRequest{GroupID: "g", GenerationID: -1, Topics: map[string][]kafka.OffsetCommit{topic: {{Partition: 0, Offset: 4}}}})
			if err != nil {
				return "", err
			}
			return fmt.Sprintf("%+v", r.Topics), nil
		}})
	addClientOp(&clientOp{name: "Heartbeat", key: 12, targets: []target{{10, 0}, {12, 0}},
		call: func(ctx context.Context, s *clientSetup, seq int) (string, error) {
			r, err := s.client.Heartbeat(ctx, &kafka.HeartbeatRequest{GroupID: "g", GenerationID: 1, MemberID: "nobody"})
			if err != nil {
				return "", err
			}
			return fmt.Sprintf("%v", r.Error), nil
		}})
	addClientOp(&clientOp{name: "ListGroups", key: 16, targets: []target{{16, 0}, {16, 1}},
		call: func(ctx context.Context, s *clientSetup, seq int) (string, error) {
			r, err := s.client.ListGroups(ctx, &kafka.ListGroupsRequest{})
			if err != nil {
				return "", err
			}
			if r.Error != nil {
				return "", r.Error
			}
			return fmt.Sprintf("%+v", r.Groups), nil
		}})
	addClientOp(&clientOp{name: "DescribeGroups", key: 15, targets: []target{{10, 0}, {15, 0}},
		call: func(ctx context.Context, s *clientSetup, seq int) (string, error) {
			r, err := s.client.DescribeGroups(ctx, &kafka.DescribeGroupsRequest{GroupIDs: []string{"g"}})
			if err != nil {
				return "", err
			}
			return fmt.Sprintf("%d groups", len(r.Groups)), nil
		}})
	addClientOp(&clientOp{name: "InitProducerID", key: 22, targets: []target{{10, 0}, {22, 0}},
		call: func(ctx context.Context, s *clientSetup, seq int) (string, error) {
			r, err := s.client.InitProducerID(ctx, &kafka.InitProducerIDRequest{TransactionalID: "tx", TransactionTimeoutMs: 1000})
			if err != nil {
				return "", err
			}
			if r.Error != nil {
				return "", r.Error
			}
			return "producer id assigned", nil
		}})
	addClientOp(&clientOp{name: "CreateTopics", key: 19, targets: []target{{19, 0}},
		call: func(ctx context.Context, s *clientSetup, seq int) (string, error) {
			name := fmt.Sprintf("new-%d", seq)
			r, err := s.client.CreateTopics(ctx, &kafka.CreateTopicsRequest{Topics: []kafka.TopicConfig{{Topic: name, NumPartitions: 1, ReplicationFactor: 1}}})
			if err != nil {
				return "", err
			}
			return fmt.Sprintf("%v", r.Errors[name]), nil
		}})
	addClientOp(&clientOp{name: "DeleteTopics", key: 20, targets: []target{{20, 0}},
		call: func(ctx context.Context, s *clientSetup, seq int) (string, error) {
			r, err := s.client.DeleteTopics(ctx, &kafka.DeleteTopicsRequest{Topics: []string{"absent"}})
			if err != nil {
				return "", err
			}
			return fmt.Sprintf("%v", r.Errors), nil
		}})
	addClientOp(&clientOp{name: "ApiVersions", key: 18, targets: []target{{18, 0}},
		call: func(ctx context.Context, s *clientSetup, seq int) (string, error) {
			r, err := s.client.ApiVersions(ctx, &kafka.ApiVersionsRequest{})
			if err != nil {
				return "", err
			}
			if r.Error != nil {
				return "", r.Error
			}
			return fmt.Sprintf("%d apis", len(r.ApiKeys)), nil
		}})
}

type clientBase struct {
	frame frameInfo
	data  string
	err   string
}

// clientCall runs the call of the case under a watchdog.
func clientCall(s *clientSetup, op *clientOp, seq int, timeout time.Duration) (data string, err error, out callOutcome) {
	ctx, cancel := context.WithTimeout(context.Background(), timeout)
	defer cancel()
	out = guarded(timeout+hangSlack, func() { data, err = op.call(ctx, s, seq) })
	return
}

// untilOK repeats the uncut call for a short while: after a failed metadata
// exchange the Transport reports the error until its next refresh.
func untilOK(s *clientSetup, op *clientOp, seq int) (data string, err error, out callOutcome) {
	deadline := time.Now().Add(3 * time.Second)
	for {
		data, err, out = clientCall(s, op, seq, 6*time.Second)
		if err == nil || !out.Returned || out.Panic != nil || op.key != 3 || time.Now().After(deadline) {
			return
		}
		time.Sleep(5 * time.Millisecond)
	}
}

// killConn makes the connection that carries the operation's own request
// fail once, so that the next call has to open (and negotiate) a new one.
func killConn(s *clientSetup, op *clientOp) {
	time.Sleep(300 * time.Microsecond) // let the Transport put the last connection back into its pool
	s.arm(clientCase{Op: op.name, TKey: op.key, TIdx: 0, K: 0}, "eof")
	clientCall(s, op, 0, 3*time.Second)
	s.disarm()
}

func clientProbe(tb ev.TB, c clientCase) *clientBase {
	s := newClientSetup(c)
	defer s.close()
	op := clientOps[c.Op]
	// warm up: connections exist, metadata is known (the metadata exchange itself is the Transport's first one)
	if op.key != 3 {
		if _, err, out := untilOK(s, op, 0); err != nil || !out.Returned {
			tb.Fatalf("harness: %s without fault failed: %v", c.Op, err)
		}
	}
	if c.Shake {
		killConn(s, op)
	}
	s.arm(c, "probe")
	data, err, out := clientCall(s, op, 1, 3*time.Second)
	if !out.Returned || out.Panic != nil {
		tb.Fatalf("harness: %s without fault did not return normally", c.Op)
	}
	s.mu.Lock()
	defer s.mu.Unlock()
	if s.hitFrame == nil {
		return nil // the call does not cause that request
	}
	return &clientBase{frame: frameInfo{Len: len(s.hitFrame), Fields: s.hitField, Marks: fetchMarksIf(c.TKey, s.hitFrame, s.hitField)}, data: data, err: errString(err)}
}

func fetchMarksIf(key int16, frame []byte, fields []refcodec.LenField) []mark {
	if key != 1 {
		return nil
	}
	return fetchMarks(frame, fields)
}

func runClient(tb ev.TB, c clientCase, base *clientBase) {
	if base == nil {
		if base = clientProbe(tb, c); base == nil {
			return
		}
	}
	s := newClientSetup(c)
	defer s.close()
	evalClient(tb, s, c, base, 1)
}

// evalClient: warm connections, cut one response, then check the outcome, the
// fate of the connection and that the next call works on a new connection.
func evalClient(tb ev.TB, s *clientSetup, c clientCase, base *clientBase, seq int) {
	op := clientOps[c.Op]
	region, field := base.frame.regionOf(c.K)
	fail := func(sig, format string, args ...any) bool {
		var j string
		for _, ex := range s.cl.Journal() {
			j += fmt.Sprintf("  seq%d conn%d b%d %s v%d %s %s cut@%d/%d\n", ex.Seq, ex.ConnID, ex.BrokerID, ex.ApiName, ex.Version, ex.Tag, ex.Outcome, ex.CutAt, ex.RespBytes)
		}
		if len(j) > 2500 {
			j = "  ...\n" + j[len(j)-2500:]
		}
		return reportFail(tb, "client", sig, c, "Client.%s (v<=%d), response of %s #%d (handshake=%v) cut after %d of %d bytes (%s; %s), variant %s: "+format+"\njournal:\n%s",
			append(append([]any{c.Op, c.Ver, apiName(c.TKey), c.TIdx, c.Shake, c.K, base.frame.Len, region, field, c.Variant}, args...), j)...)
	}
	sig := c.Op
	if c.Shake {
		sig += "+handshake"
	} else if c.TKey != op.key {
		sig += "+implicit-" + apiName(c.TKey)
	}
	if seq == 1 && op.key != 3 {
		if _, err, out := untilOK(s, op, 0); err != nil || !out.Returned {
			tb.Fatalf("harness: %s without fault failed: %v", c.Op, err)
		}
	}
	if c.Shake {
		killConn(s, op)
	}
	s.arm(c, c.Variant)
	ev.InFlight("client", c)
	var data string
	var err error
	var out callOutcome
	if c.Variant == "stall" {
		// the context of the call ends 120 ms after the target request reached the broker
		ctx, cancel := context.WithTimeout(context.Background(), 3*time.Second)
		var hitAt time.Time
		var hmu sync.Mutex
		s.mu.Lock()
		s.onHit = func() {
			hmu.Lock()
			hitAt = time.Now()
			hmu.Unlock()
			time.AfterFunc(120*time.Millisecond, cancel)
		}
		s.mu.Unlock()
		out = guarded(3*time.Second+hangSlack, func() { data, err = op.call(ctx, s, seq*2+1) })
		cancel()
		hmu.Lock()
		if out.Returned && !hitAt.IsZero() && time.Since(hitAt) > 120*time.Millisecond+2*time.Second {
			ev.Inconclusive("returned_late_after_deadline")
		}
		hmu.Unlock()
	} else {
		data, err, out = clientCall(s, op, seq*2+1, 6*time.Second)
	}
	s.disarm()
	if !out.Returned {
		fail("c17/hang/client/"+sig, "the call did not return within its deadline + %v (waited %v)", hangSlack, out.Took)
		return
	}
	if out.Panic != nil {
		fail("c17/panic/client/"+sig, "the call panicked: %v", out.Panic)
		return
	}
	s.mu.Lock()
	hitConn, hitSeq, hitVer, hit := s.hitConn, s.hitSeq, s.hitVer, s.hitFrame != nil
	if hit {
		// judge by the frame that was actually cut (which of two parallel requests comes first may vary)
		fi := frameInfo{Len: len(s.hitFrame), Fields: s.hitField, Marks: fetchMarksIf(c.TKey, s.hitFrame, s.hitField)}
		base = &clientBase{frame: fi, data: base.data, err: base.err}
		region, field = fi.regionOf(c.K)
	}
	s.mu.Unlock()
	if !hit && c.Shake {
		// the Transport still had an idle connection (it returns a connection to its pool after handing
		// out the response, so a quick next call may open a second one): no handshake, nothing was cut
		ev.Count("handshake_not_needed", 1)
		return
	}
	if !hit {
		var j string
		for _, ex := range s.cl.Journal() {
			j += fmt.Sprintf("  seq%d conn%d b%d %s v%d %s %s cut@%d/%d\n", ex.Seq, ex.ConnID, ex.BrokerID, ex.ApiName, ex.Version, ex.Tag, ex.Outcome, ex.CutAt, ex.RespBytes)
		}
		if err != nil {
			// the call failed before it sent the target request (a dial or an earlier exchange timed out on a saturated
			// machine): nothing was cut, nothing to judge
			ev.Inconclusive("target_request_not_sent")
			return
		}
		tb.Fatalf("harness: Client.%s did not cause %s #%d (handshake=%v) case %+v err=%v took=%v\n%s", c.Op, apiName(c.TKey), c.TIdx, c.Shake, c, err, out.Took, j)
	}
	final := !c.Shake && c.TKey == op.key
	for _, tg := range op.targets {
		if tg.key == op.key && tg.idx > c.TIdx {
			final = false
		}
	}
	delivered := c.K >= base.frame.Len
	labels := []string{"client:" + c.Op, "variant:" + c.Variant, "api:" + apiName(c.TKey), "region:" + region}
	if c.Shake {
		labels = append(labels, "target:handshake")
	} else if c.TKey != op.key || c.TIdx > 0 {
		labels = append(labels, fmt.Sprintf("target:%s#%d-inside-%s", apiName(c.TKey), c.TIdx, c.Op))
	}
	if delivered && final && c.Variant != "stall" {
		if err != nil || data != base.data {
			fail("c17/complete-response-differs/client/"+sig, "the whole response was delivered, yet the outcome (%q, %v) differs from the one without fault (%q)", data, err, base.data)
			return
		}
	} else if !delivered && op.key == 3 && err == nil {
		// Client.Metadata is answered from the Transport's cache, which its refresh loop fills: the call
		// is not pending on the exchange that was cut and may be served by a later, complete one
		if data != base.data {
			fail("c17/fake-data/client/"+sig, "the call returned %q, without fault it returns %q", data, base.data)
			return
		}
		labels = append(labels, "metadata_served_by_later_refresh")
	} else if !delivered {
		if err == nil {
			fail("c17/no-error/client/"+sig, "the call reported no error and returned %q", data)
			return
		}
		if data != "" {
			fail("c17/no-error/client/"+sig, "the call returned data %q with the error %v", data, err)
			return
		}
	}
	// the next call succeeds, on another connection
	data2, err2, out2 := untilOK(s, op, seq*2+2)
	if !out2.Returned || out2.Panic != nil {
		fail("c17/hang-after-cut/client/"+sig, "the next call did not return normally (returned=%v panic=%v)", out2.Returned, out2.Panic)
		return
	}
	if !delivered {
		if err2 != nil {
			fail("c17/next-call-fails/client/"+sig, "the call after the cut one failed: %v (the cut call had failed with: %v)", err2, err)
			return
		}
		if data2 != base.data {
			fail("c17/next-call-differs/client/"+sig, "the call after the cut one returned %q, without fault it returns %q", data2, base.data)
			return
		}
		// nothing was sent on the cut connection afterwards
		for _, ex := range s.cl.Journal() {
			if ex.ConnID == hitConn && ex.Seq > hitSeq {
				fail("c17/transport-reused-connection/"+sig, "request seq %d (%s) was sent on connection %d after its response seq %d had been cut", ex.Seq, ex.ApiName, hitConn, hitSeq)
				return
			}
		}
		for _, cs := range s.nw.Conns() {
			if cs.ID == hitConn && cs.ClientWroteAfterCut > 0 {
				fail("c17/transport-reused-connection/"+sig, "%d bytes were written on connection %d after its response had been cut", cs.ClientWroteAfterCut, hitConn)
				return
			}
		}
	}
	for _, v := range s.cl.Violations() {
		fail("c17/malformed-request", "the fake broker rejected a request: %s", v)
		return
	}
	ev.Case(fmt.Sprintf("client|%s|v%d|%s#%d|%v|%s|%s", c.Op, hitVer, apiName(c.TKey), c.TIdx, c.Shake, c.Variant, field), c.K > 0 && !delivered, labels...)
	ev.SampleTagged("client:"+c.Op, 1, map[string]any{"case": c, "frame_len": base.frame.Len, "region": region, "error": errString(err)})
}

func clientGroups() []clientCase {
	var out []clientCase
	for _, name := range clientOpOrder {
		op := clientOps[name]
		a := refcodec.MustLookup(op.key)
		for v := a.Min; v <= a.Max; v++ {
			if op.key == 3 && v == 0 {
				// against a broker limited to Metadata v0 the Transport's refresh sends a null topic
				// array, which v0 does not allow (the fake closes the connection): no response to cut
				continue
			}
			for _, tg := range op.targets {
				if tg.key != op.key && v != a.Max {
					continue // the implicit requests do not depend on the version of the operation's API
				}
				out = append(out, clientCase{Op: name, Ver: v, TKey: tg.key, TIdx: tg.idx})
			}
			if op.shake && v == a.Max {
				out = append(out, clientCase{Op: name, Ver: v, TKey: 18, Shake: true})
			}
		}
	}
	return out
}

func enumerateClientGroup(tb ev.TB, g clientCase) {
	base := clientProbe(tb, g)
	if base == nil {
		ev.Count(fmt.Sprintf("client_target_not_sent:%s-v%d/%s#%d/shake=%v", g.Op, g.Ver, apiName(g.TKey), g.TIdx, g.Shake), 1)
		return
	}
	rnd := newPrng("client", g.Op, g.Ver, g.TKey, g.TIdx, g.Shake)
	all := tier()
	stride := 1
	if !all {
		stride = 4
		if g.Op == "Metadata" {
			stride = 9 // a fresh Transport per case
		}
	}
	ks, exhaustive := positions(base.frame.Len, base.frame.bounds(), all, stride, ev.Scale(16, 128), rnd.intn)
	if exhaustive {
		ev.Count("exhaustive_frames", 1)
	}
	var s *clientSetup
	uses := 0
	defer func() {
		if s != nil {
			s.close()
		}
	}()
	seq := 0
	for i, k := range ks {
		variants := []string{"eof"}
		if i%4 == 1 {
			variants = append(variants, "rst")
		}
		if k < base.frame.Len && (k == 0 || k == 5 || k == 8 || (all && i%16 == 9)) {
			variants = append(variants, "stall")
		}
		for _, v := range variants {
			c := g
			c.K, c.Variant = k, v
			if s == nil || uses >= 60 || g.Op == "Metadata" {
				if s != nil {
					s.close()
				}
				s, uses, seq = newClientSetup(c), 0, 0
			}
			uses++
			seq++
			evalClient(tb, s, c, base, seq)
		}
	}
}

// TestClientOps: kafka.Client calls through kafka.Transport, every response the
// call waits for (handshake, coordinator lookup, the request itself) x version x cut.
func TestClientOps(t *testing.T) {
	idx, of := shard()
	for i, g := range clientGroups() {
		if i%of != idx {
			continue
		}
		t0 := time.Now()
		enumerateClientGroup(t, g)
		if d := time.Since(t0); d > 2*time.Second {
			t.Logf("group %+v took %v", g, d)
		}
	}
}

// ===========================================================================
// (2b) every registered API x version: reference-encoded responses

type apiCase struct {
	Key      int16  `json:"api_key"`
	Ver      int16  `json:"version"`
	FrameHex string `json:"frame_hex"`
	K        int    `json:"k"`
	Variant  string `json:"variant"` // eof rst
	Level    string `json:"level"`   // protocol (protocol.Conn.RoundTrip) | transport (kafka.Transport.RoundTrip) | sasl-raw
}

func init() { ev.Register("api", func(tb ev.TB, c apiCase) { runAPI(tb, c) }) }

// bareBroker is a memnet handler that knows nothing but frames: it answers
// ApiVersions, Metadata and FindCoordinator (what a Transport needs to route)
// and replies to the target API with the prepared frame, cut.
type bareBroker struct {
	nw   *memnet.Network
	mu   sync.Mutex
	key  int16
	ver  int16
	resp []byte // full frame (correlation id patched per request)
	k    int    // bytes to deliver; <0 = all, connection stays open
	rst  bool
	raw  bool // sasl-raw: no kafka framing
	// observations
	targetConns []int
	cutConns    map[int]bool // connections whose response ended before its last byte
}

const bareAddr = "g.fake:9092"

func newBareBroker(key, ver int16, frame []byte) *bareBroker {
	b := &bareBroker{nw: memnet.New(), key: key, ver: ver, resp: frame, k: -1, cutConns: map[int]bool{}}
	b.nw.Listen(bareAddr, b.serve)
	return b
}

func (b *bareBroker) set(k int, rst bool) {
	b.mu.Lock()
	b.k, b.rst = k, rst
	b.mu.Unlock()
}

func (b *bareBroker) encode(key, ver int16, corr int32, body map[string]any) []byte {
	fr, _, err := refcodec.EncodeResponse(refcodec.MustLookup(key), ver, corr, body, nil)
	if err != nil {
		panic(err)
	}
	return fr
}

func (b *bareBroker) serve(sc *memnet.ServerConn) {
	defer sc.Close()
	for {
		var szb [4]byte
		if _, err := io.ReadFull(sc, szb[:]); err != nil {
			return
		}
		size := int(binary.BigEndian.Uint32(szb[:]))
		if size < 0 || size > 64<<20 {
			return
		}
		req := make([]byte, size)
		if _, err := io.ReadFull(sc, req); err != nil {
			return
		}
		b.mu.Lock()
		raw := b.raw
		b.mu.Unlock()
		var key, ver int16
		var corr int32
		if !raw {
			if size < 8 {
				return
			}
			key, ver = int16(binary.BigEndian.Uint16(req)), int16(binary.BigEndian.Uint16(req[2:]))
			corr = int32(binary.BigEndian.Uint32(req[4:]))
		}
		b.mu.Lock()
		target := raw || key == b.key
		k, rst := b.k, b.rst
		frame := append([]byte{}, b.resp...)
		if target {
			b.targetConns = append(b.targetConns, sc.ID())
		}
		b.mu.Unlock()
		if !target {
			var out []byte
			switch key {
			case 18:
				var list []any
				for i := range refcodec.APIs {
					a := &refcodec.APIs[i]
					lo, hi := a.Min, a.Max
					if a.Key == b.key {
						lo, hi = b.ver, b.ver
					}
					list = append(list, map[string]any{"ApiKey": int64(a.Key), "MinVersion": int64(lo), "MaxVersion": int64(hi)})
				}
				out = b.encode(18, 0, corr, map[string]any{"ErrorCode": int64(0), "ApiKeys": list})
				if ver != 0 {
					out = b.encode(18, ver, corr, map[string]any{"ErrorCode": int64(0), "ApiKeys": list})
				}
			case 3:
				part := map[string]any{"ErrorCode": int64(0), "PartitionIndex": int64(0), "LeaderID": int64(1), "LeaderEpoch": int64(0), "ReplicaNodes": []any{int64(1)}, "IsrNodes": []any{int64(1)}, "OfflineReplicas": []any{}}
				out = b.encode(3, ver, corr, map[string]any{
					"Brokers":      []any{map[string]any{"NodeID": int64(1), "Host": "g.fake", "Port": int64(9092), "Rack": nil}},
					"ClusterID":    "bare",
					"ControllerID": int64(1),
					"Topics":       []any{map[string]any{"ErrorCode": int64(0), "Name": topic, "IsInternal": false, "Partitions": []any{part}}},
				})
			case 10:
				out = b.encode(10, ver, corr, map[string]any{"ErrorCode": int64(0), "NodeID": int64(1), "Host": "g.fake", "Port": int64(9092)})
			default:
				return // a request the bare broker has no answer for: harness error, the client sees EOF
			}
			if _, err := sc.Write(out); err != nil {
				return
			}
			continue
		}
		if !raw && len(frame) >= 8 {
			binary.BigEndian.PutUint32(frame[4:], uint32(corr))
		}
		if k < 0 || k > len(frame) {
			if _, err := sc.Write(frame); err != nil {
				return
			}
			if k < 0 {
				continue
			}
			k = len(frame)
		} else {
			sc.Write(frame[:k])
		}
		if k < len(frame) {
			b.mu.Lock()
			b.cutConns[sc.ID()] = true
			b.mu.Unlock()
		}
		sc.Abort(rst)
		deadline := time.Now().Add(2 * time.Second)
		for !sc.ClientClosed() && time.Now().Before(deadline) {
			time.Sleep(200 * time.Microsecond)
		}
		return
	}
}

func setField(v reflect.Value, name string, val any) {
	f := v.Elem().FieldByName(name)
	if f.IsValid() && f.CanSet() {
		rv := reflect.ValueOf(val)
		if rv.Type().ConvertibleTo(f.Type()) {
			f.Set(rv.Convert(f.Type()))
		}
	}
}

// apiRequest builds a request the library can encode and the Transport can route.
func apiRequest(key int16) protocol.Message {
	req := libtypes.NewRequest(key)
	v := reflect.ValueOf(req)
	setField(v, "GroupID", "g")
	setField(v, "TransactionalID", "tx")
	switch key {
	case 0:
		setField(v, "Acks", int16(-1)) // acks=0 has no response
	case 2:
		body := map[string]any{"ReplicaID": int64(-1), "Topics": []any{map[string]any{"Topic": topic, "Partitions": []any{map[string]any{"Partition": int64(0), "CurrentLeaderEpoch": int64(-1), "Timestamp": int64(-1)}}}}}
		if err := refcodec.ToStruct(refcodec.MustLookup(2).Req, 1, body, v, libtypes.RecordsHook()); err != nil {
			panic(err)
		}
	case 15:
		body := map[string]any{"Groups": []any{"g"}}
		if err := refcodec.ToStruct(refcodec.MustLookup(15).Req, 0, body, v, libtypes.RecordsHook()); err != nil {
			panic(err)
		}
	case 32:
		body := map[string]any{"Resources": []any{map[string]any{"ResourceType": int64(2), "ResourceName": topic, "ConfigurationKeys": nil}}}
		if err := refcodec.ToStruct(refcodec.MustLookup(32).Req, 0, body, v, libtypes.RecordsHook()); err != nil {
			panic(err)
		}
	}
	return req
}

func runAPI(tb ev.TB, c apiCase) {
	frame, err := hex.DecodeString(c.FrameHex)
	if err != nil {
		tb.Fatalf("harness: %v", err)
	}
	b := newBareBroker(c.Key, c.Ver, frame)
	defer b.nw.Shutdown()
	switch c.Level {
	case "protocol":
		evalProtocol(tb, b, c, frame, nil)
	case "sasl-raw":
		b.raw = true
		evalProtocol(tb, b, c, frame, nil)
	case "transport":
		tr := &kafka.Transport{Dial: b.nw.Dial, ClientID: "c17", MetadataTTL: time.Hour, DialTimeout: 2 * time.Second}
		defer tr.CloseIdleConnections()
		evalTransport(tb, b, tr, c, frame, nil)
	}
}

func apiFail(tb ev.TB, c apiCase, fi *frameInfo, sig, format string, args ...any) bool {
	a := refcodec.MustLookup(c.Key)
	region, field := "?", "?"
	if fi != nil {
		region, field = fi.regionOf(c.K)
	}
	return reportFail(tb, "api", sig, c, "%s v%d response (%d bytes) through %s cut after %d bytes (%s; %s), variant %s: "+format,
		append([]any{a.Name, c.Ver, len(c.FrameHex) / 2, c.Level, c.K, region, field, c.Variant}, args...)...)
}

// evalProtocol: protocol.Conn.RoundTrip (what a Transport connection runs) on a
// fresh connection whose response is cut after k bytes.
func evalProtocol(tb ev.TB, b *bareBroker, c apiCase, frame []byte, fi *frameInfo) {
	a := refcodec.MustLookup(c.Key)
	b.set(c.K, c.Variant == "rst")
	nc, err := b.nw.Dial(context.Background(), "tcp", bareAddr)
	if err != nil {
		tb.Fatalf("harness: %v", err)
	}
	pc := protocol.NewConn(nc, "c17")
	defer pc.Close()
	versions := map[protocol.ApiKey]int16{protocol.ApiKey(c.Key): c.Ver, protocol.SaslHandshake: 1}
	var req protocol.Message
	if c.Level == "sasl-raw" {
		versions[protocol.SaslHandshake] = 0
		req = &saslauthenticate.Request{AuthBytes: []byte("token")}
	} else {
		req = apiRequest(c.Key)
	}
	pc.SetVersions(versions)
	pc.SetDeadline(time.Now().Add(3 * time.Second))
	var msg protocol.Message
	out := guarded(3*time.Second+hangSlack, func() { msg, err = pc.RoundTrip(req) })
	sig := fmt.Sprintf("%s/%s/v%d", c.Level, a.Name, c.Ver)
	if !out.Returned {
		apiFail(tb, c, fi, "c17/hang/"+sig, "RoundTrip did not return within its deadline + 10 s")
		return
	}
	if out.Panic != nil {
		apiFail(tb, c, fi, "c17/panic/"+sig, "RoundTrip panicked: %v", out.Panic)
		return
	}
	if c.K >= len(frame) {
		if err != nil {
			// the uncut frame is not accepted: a codec matter (C04), no basis for judging the cuts
			ev.Inconclusive("full_frame_rejected:" + a.Name)
			return
		}
	} else {
		if err == nil {
			apiFail(tb, c, fi, "c17/no-error/"+sig, "RoundTrip returned no error (message %T)", msg)
			return
		}
		if msg != nil && !reflect.ValueOf(msg).IsNil() {
			apiFail(tb, c, fi, "c17/partial-message-returned/"+sig, "RoundTrip returned a %T together with the error %v", msg, err)
			return
		}
	}
	region, field := "?", "?"
	if fi != nil {
		region, field = fi.regionOf(c.K)
	}
	ev.Case(fmt.Sprintf("%s|%s|v%d|%s|%s", c.Level, a.Name, c.Ver, c.Variant, field), c.K > 0 && c.K < len(frame), "level:"+c.Level, "variant:"+c.Variant, "region:"+region, "generic-api:"+a.Name)
}

// evalTransport: kafka.Transport.RoundTrip; the connection that carried the
// cut response must not carry another request.
func evalTransport(tb ev.TB, b *bareBroker, tr *kafka.Transport, c apiCase, frame []byte, fi *frameInfo) {
	a := refcodec.MustLookup(c.Key)
	b.set(c.K, c.Variant == "rst")
	sig := fmt.Sprintf("transport/%s/v%d", a.Name, c.Ver)
	ctx, cancel := context.WithTimeout(context.Background(), 3*time.Second)
	defer cancel()
	var msg kafka.Response
	var err error
	ev.InFlight("api", c)
	out := guarded(3*time.Second+hangSlack, func() { msg, err = tr.RoundTrip(ctx, kafka.TCP(bareAddr), apiRequest(c.Key)) })
	if !out.Returned {
		apiFail(tb, c, fi, "c17/hang/"+sig, "RoundTrip did not return within its deadline + 10 s")
		return
	}
	if out.Panic != nil {
		apiFail(tb, c, fi, "c17/panic/"+sig, "RoundTrip panicked: %v", out.Panic)
		return
	}
	b.mu.Lock()
	conns := append([]int{}, b.targetConns...)
	b.mu.Unlock()
	if len(conns) == 0 {
		tb.Fatalf("harness: the transport did not send a %s request (error %v)", a.Name, err)
	}
	if c.K >= len(frame) {
		if err != nil {
			ev.Inconclusive("full_frame_rejected:" + a.Name)
			return
		}
	} else {
		if err == nil {
			apiFail(tb, c, fi, "c17/no-error/"+sig, "RoundTrip returned no error (message %T)", msg)
			return
		}
		if msg != nil && !reflect.ValueOf(msg).IsNil() {
			apiFail(tb, c, fi, "c17/partial-message-returned/"+sig, "RoundTrip returned a %T together with the error %v", msg, err)
			return
		}
	}
	// a connection whose response was cut carries nothing afterwards (its handler is gone: what the
	// client still writes on it is counted by the network)
	for _, cs := range b.nw.Conns() {
		b.mu.Lock()
		cut := b.cutConns[cs.ID]
		b.mu.Unlock()
		if cut && cs.ClientWroteAfterCut > 0 && c.K < len(frame) {
			apiFail(tb, c, fi, "c17/transport-reused-connection/"+sig, "%d bytes were written on connection %d after its response had been cut", cs.ClientWroteAfterCut, cs.ID)
			return
		}
	}
	region, field := "?", "?"
	if fi != nil {
		region, field = fi.regionOf(c.K)
	}
	ev.Case(fmt.Sprintf("transport|%s|v%d|%s|%s", a.Name, c.Ver, c.Variant, field), c.K > 0 && c.K < len(frame), "level:transport", "variant:"+c.Variant, "region:"+region, "generic-api:"+a.Name)
}

// fetch responses carry any valid layout (as C04 generates them)
func genFetchRecords(ver int16) func(t *rapid.T, path string) *refcodec.RecordSet {
	return func(t *rapid.T, path string) *refcodec.RecordSet {
		if rapid.IntRange(0, 6).Draw(t, "nullRecords") == 0 {
			return nil
		}
		rs := &refcodec.RecordSet{}
		off := int64(rapid.IntRange(0, 1000).Draw(t, "base"))
		nb := rapid.IntRange(1, 3).Draw(t, "nBatches")
		for i := 0; i < nb; i++ {
			magic := int8(2)
			if ver < 4 {
				magic = int8(rapid.IntRange(0, 1).Draw(t, "magic"))
			}
			n := rapid.IntRange(1, 4).Draw(t, "nRecords")
			recs := refcodec.GenRecords(t, n, off, magic, false, false)
			off = recs[len(recs)-1].Offset + 1
			codec := int8(rapid.SampledFrom([]int{0, 0, 1, 2, 3, 4}).Draw(t, "codec"))
			if magic == 2 {
				bt := refcodec.MakeBatchV2(recs, codec)
				bt.SnappyXerial = rapid.Bool().Draw(t, "xerial")
				rs.Batches = append(rs.Batches, bt)
			} else {
				if magic == 0 {
					codec = 0
				}
				rs.Batches = append(rs.Batches, refcodec.Batch{Magic: magic, Codec: codec, Records: recs, RelativeInner: true, SnappyXerial: rapid.Bool().Draw(t, "xerial")})
			}
		}
		return rs
	}
}

// fixBody keeps generated responses inside what a broker sends to this client
// and away from follow-up behaviour of the Transport that is not under test.
func fixBody(key int16, body map[string]any) {
	switch key {
	case 19:
		// a created topic makes the Transport wait until it shows up in the metadata
		if ts, ok := body["Topics"].([]any); ok {
			for _, tv := range ts {
				if m, ok := tv.(map[string]any); ok {
					m["ErrorCode"] = int64(36)
				}
			}
		}
	}
}

type apiVersion struct {
	a   *refcodec.API
	ver int16
}

func allAPIVersions() []apiVersion {
	var out []apiVersion
	for i := range refcodec.APIs {
		a := &refcodec.APIs[i]
		for v := a.Min; v <= a.Max; v++ {
			out = append(out, apiVersion{a, v})
		}
	}
	return out
}

// transportable: APIs a Transport sends on behalf of RoundTrip callers and the
// bare broker does not need for itself.
func transportable(key int16) bool {
	switch key {
	case 18, 3, 10, 17, 36:
		return false
	}
	return true
}

// TestEveryAPI: each check takes the next (api, version) of the registered
// table (so that a run of >= 153 checks covers all of them), draws a response
// value, and cuts its reference encoding at the selected positions, through
// protocol.Conn.RoundTrip and through kafka.Transport.RoundTrip.
func TestEveryAPI(t *testing.T) {
	avs := allAPIVersions()
	idx, _ := shard()
	n := idx * 37
	ev.Note("api_versions", fmt.Sprint(len(avs)))
	rapid.Check(t, func(t *rapid.T) {
		av := avs[n%len(avs)]
		n++
		a, ver := av.a, av.ver
		var recs func(t *rapid.T, path string) *refcodec.RecordSet
		if a.Key == 1 {
			recs = genFetchRecords(ver)
		}
		body := refcodec.GenBody(t, a.Resp, ver, refcodec.ForLibDecode, 0, recs)
		fixBody(a.Key, body)
		frame, fields, err := refcodec.EncodeResponse(a, ver, 1, body, nil)
		if err != nil {
			t.Fatalf("harness: %v", err)
		}
		fi := &frameInfo{Len: len(frame), Fields: fields, Marks: fetchMarksIf(a.Key, frame, fields)}
		draw := func(n int) int {
			if n <= 1 {
				return 0
			}
			return rapid.IntRange(0, n-1).Draw(t, "k")
		}
		all := tier()
		stride := 1
		if !all {
			stride = 3
		}
		ks, exhaustive := positions(fi.Len, fi.bounds(), all, stride, ev.Scale(16, 128), draw)
		if exhaustive {
			ev.Count("exhaustive_frames", 1)
		}
		c := apiCase{Key: a.Key, Ver: ver, FrameHex: hex.EncodeToString(frame), Level: "protocol"}
		b := newBareBroker(a.Key, ver, frame)
		defer b.nw.Shutdown()
		ev.InFlight("api", c)
		for i, k := range ks {
			c.K, c.Variant = k, "eof"
			evalProtocol(t, b, c, frame, fi)
			if i%5 == 2 {
				c.Variant = "rst"
				evalProtocol(t, b, c, frame, fi)
			}
		}
		ev.Label(fmt.Sprintf("covered:%s/v%d", a.Name, ver))
		if !transportable(a.Key) {
			return
		}
		// the same frame through a Transport: a sparser set of positions (every call opens a connection)
		tks, _ := positions(fi.Len, fi.bounds(), false, ev.Scale(9, 2), ev.Scale(4, 32), draw)
		tr := &kafka.Transport{Dial: b.nw.Dial, ClientID: "c17", MetadataTTL: time.Hour, DialTimeout: 2 * time.Second}
		defer tr.CloseIdleConnections()
		c.Level = "transport"
		// the complete response followed by the end of the connection first: the Transport cannot know
		// that this connection is gone and may try it once more
		c.K, c.Variant = len(frame), "eof"
		evalTransport(t, b, tr, c, frame, fi)
		b.set(-1, false)
		ctx0, cancel0 := context.WithTimeout(context.Background(), 3*time.Second)
		guarded(3*time.Second+hangSlack, func() { tr.RoundTrip(ctx0, kafka.TCP(bareAddr), apiRequest(a.Key)) })
		cancel0()
		for i, k := range tks {
			if k >= len(frame) {
				continue
			}
			c.K, c.Variant = k, "eof"
			if i%4 == 3 {
				c.Variant = "rst"
			}
			evalTransport(t, b, tr, c, frame, fi)
		}
		// and finally an uncut exchange works, on a new connection
		c.K, c.Variant = len(frame), "eof"
		b.set(-1, false)
		ctx, cancel := context.WithTimeout(context.Background(), 3*time.Second)
		var rerr error
		out := guarded(3*time.Second+hangSlack, func() { _, rerr = tr.RoundTrip(ctx, kafka.TCP(bareAddr), apiRequest(a.Key)) })
		cancel()
		if !out.Returned || out.Panic != nil {
			apiFail(t, c, fi, fmt.Sprintf("c17/hang-after-cut/transport/%s/v%d", a.Name, ver), "the uncut exchange after the cut ones did not return normally (returned=%v panic=%v)", out.Returned, out.Panic)
			return
		}
		if rerr != nil {
			// is the frame acceptable at all?
			b2 := newBareBroker(a.Key, ver, frame)
			tr2 := &kafka.Transport{Dial: b2.nw.Dial, ClientID: "c17", MetadataTTL: time.Hour, DialTimeout: 2 * time.Second}
			ctx2, cancel2 := context.WithTimeout(context.Background(), 3*time.Second)
			_, ferr := tr2.RoundTrip(ctx2, kafka.TCP(bareAddr), apiRequest(a.Key))
			cancel2()
			tr2.CloseIdleConnections()
			b2.nw.Shutdown()
			if ferr != nil {
				ev.Inconclusive("full_frame_rejected:" + a.Name)
				return
			}
			apiFail(t, c, fi, fmt.Sprintf("c17/next-call-fails/transport/%s/v%d", a.Name, ver), "after the cut exchanges an uncut one failed: %v (a fresh Transport accepts the same frame)", rerr)
		}
	})
}

// TestSaslRawExchange: the unframed SASL token exchange (after a v0 handshake)
// is a response the library reads too: a 4-byte length and opaque bytes.
func TestSaslRawExchange(t *testing.T) {
	for _, n := range []int{0, 1, 5, 300} {
		token := make([]byte, n)
		for i := range token {
			token[i] = byte(i*31 + 7)
		}
		frame := append(binary.BigEndian.AppendUint32(nil, uint32(n)), token...)
		fi := &frameInfo{Len: len(frame)}
		b := newBareBroker(36, 0, frame)
		b.raw = true
		c := apiCase{Key: 36, Ver: 0, FrameHex: hex.EncodeToString(frame), Level: "sasl-raw"}
		for k := 0; k <= len(frame); k++ {
			for _, v := range []string{"eof", "rst"} {
				c.K, c.Variant = k, v
				evalProtocol(t, b, c, frame, fi)
			}
		}
		b.nw.Shutdown()
	}
}

var _ = fakecluster.ErrNone
