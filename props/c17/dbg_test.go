package c17

import (
	"testing"
	"time"
)

func TestDbgClient(t *testing.T) {
	g := clientCase{Op: "Fetch", Ver: 6, TKey: 1}
	base := clientProbe(t, g)
	s := newClientSetup(g)
	defer s.close()
	t0 := time.Now()
	for i := 0; i < 100; i++ {
		c := g
		c.K, c.Variant = 20+i, "eof"
		t1 := time.Now()
		evalClient(t, s, c, base, i+1)
		if d := time.Since(t1); d > 5*time.Millisecond {
			t.Logf("case %d took %v", i, d)
		}
	}
	t.Logf("100 cases: %v", time.Since(t0))
}
