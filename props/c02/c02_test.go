// Package c02 decides property C02: the Reader delivers exactly the
// partition's records from its position, in order.
package c02

import (
	"bytes"
	"context"
	"errors"
	"fmt"
	"net"
	"os"
	"sort"
	"strings"
	"sync"
	"syscall"
	"testing"
	"time"

	kafka "github.com/segmentio/kafka-go"
	"pgregory.net/rapid"

	"verif/fakecluster"
	"verif/internal/ev"
	"verif/internal/logsim"
	"verif/memnet"
	"verif/refcodec"
)

func TestMain(m *testing.M) {
	// "not delivered within 10 s" is a wall-clock bound: it counts when the same case fails again straight away
	ev.NeedsRepro("c02/no-delivery")
	ev.Main(m, "C02")
}

type step struct {
	Op     string         `json:"op"` // fetch | setoffset | append | trimstart
	N      int            `json:"n,omitempty"`
	Offset int64          `json:"offset,omitempty"`
	Layout *logsim.Layout `json:"layout,omitempty"`
}

type fetchFault struct {
	Kind    string `json:"kind"` // ok cut code leader-move drop refuse-dial stall
	Code    int16  `json:"code,omitempty"`
	CutPerK int    `json:"cut_per_mille,omitempty"`
}

type readerCase struct {
	FetchMax   int16         `json:"fetch_max"`
	Brokers    int           `json:"brokers"`
	Initial    logsim.Layout `json:"initial"`
	LogStart   int64         `json:"log_start"`
	MinBytes   int           `json:"min_bytes"`
	MaxBytes   int           `json:"max_bytes"`
	MaxWaitMs  int           `json:"max_wait_ms"`
	QueueCap   int           `json:"queue_capacity"`
	Start      string        `json:"start"` // first | last | offset
	StartOff   int64         `json:"start_offset"`
	// Part: the partition the reader is bound to; ExtraParts more partitions follow it; ReverseParts: the broker lists the
	// partitions of the topic by decreasing id in its metadata
	Part         int  `json:"part,omitempty"`
	ExtraParts   int  `json:"extra_parts,omitempty"`
	ReverseParts bool `json:"reverse_parts,omitempty"`
	Steps      []step        `json:"steps"`
	Faults     []fetchFault  `json:"faults"`
	UseConn    bool          `json:"use_conn"`
	ChunkReads int           `json:"chunk_reads"` // deliver fetch responses in reads of at most this many bytes (0 = whole)
	// OpenTxnAt > 0: a transaction is open on the partition from this offset on (the brokers report it as the last stable
	// offset, below the high watermark); a reader with the default isolation level reads on past it
	OpenTxnAt int64 `json:"open_txn_at,omitempty"`
}

func init() { ev.Register("reader", func(tb ev.TB, c readerCase) { run(tb, c) }) }

func TestReplay(t *testing.T) { ev.RunReplay(t) }

const topic = "t"

type delivered struct {
	m   kafka.Message
	err error
}

func sameBytes(a, b []byte) bool { return bytes.Equal(a, b) } // nil == empty on this path

// wantPartition is the partition the reader of the running case is bound to (cases run one at a time).
var wantPartition int

func diffMessage(m kafka.Message, r refcodec.Record) string {
	switch {
	case m.Offset != r.Offset:
		return fmt.Sprintf("offset %d, stored %d", m.Offset, r.Offset)
	case m.Topic != topic || m.Partition != wantPartition:
		return fmt.Sprintf("topic/partition %s/%d", m.Topic, m.Partition)
	case !sameBytes(m.Key, r.Key):
		return fmt.Sprintf("key %x, stored %x", m.Key, r.Key)
	case !sameBytes(m.Value, r.Value):
		return fmt.Sprintf("value of %d bytes differs from the stored %d bytes", len(m.Value), len(r.Value))
	case r.Timestamp == 0 && !m.Time.IsZero(): // format 0 has no timestamp
		return fmt.Sprintf("time %v, stored record has no timestamp", m.Time)
	case r.Timestamp != 0 && refcodec.MillisOf(m.Time) != r.Timestamp:
		return fmt.Sprintf("time %d ms, stored %d ms", refcodec.MillisOf(m.Time), r.Timestamp)
	case len(m.Headers) != len(r.Headers):
		return fmt.Sprintf("%d headers, stored %d", len(m.Headers), len(r.Headers))
	}
	for i, h := range m.Headers {
		if h.Key != r.Headers[i].Key || !sameBytes(h.Value, r.Headers[i].Value) {
			return fmt.Sprintf("header %d %q=%x, stored %q=%x", i, h.Key, h.Value, r.Headers[i].Key, r.Headers[i].Value)
		}
	}
	return ""
}

func run(tb ev.TB, c readerCase) (labels []string) {
	nw := memnet.New()
	cl := fakecluster.New(nw, c.Brokers)
	defer cl.Close()
	wantPartition = c.Part
	cl.CreateTopic(topic, 1+c.Part+c.ExtraParts)
	cl.ReversePartitionOrder = c.ReverseParts
	for p := 0; p < 1+c.Part+c.ExtraParts; p++ {
		if p == c.Part {
			continue
		}
		// the neighbours hold other records: a reader bound to the wrong partition delivers them
		var decoys []refcodec.Record
		for i := 0; i < 4; i++ {
			decoys = append(decoys, refcodec.Record{Offset: int64(i), Timestamp: int64(1 + i), Value: []byte(fmt.Sprintf("decoy-p%d-%d", p, i))})
		}
		cl.AppendBatches(topic, int32(p), refcodec.MakeBatchV2(decoys, 0))
	}
	cl.SetVersions(0, 1, 0, c.FetchMax)
	cl.AppendBatches(topic, int32(c.Part), c.Initial.Batches...)
	if c.LogStart > 0 {
		cl.SetLogRange(topic, int32(c.Part), c.LogStart, 0)
	}
	if c.OpenTxnAt > 0 {
		cl.PartitionUnlocked(topic, int32(c.Part)).OpenTxnFrom = c.OpenTxnAt
	}
	lab := map[string]bool{}
	if c.OpenTxnAt > 0 {
		lab["open_transaction_below_hwm"] = true
	}
	for _, l := range c.Initial.Labels {
		lab[l] = true
	}
	var mu sync.Mutex
	fetchIdx := 0
	refuseLeft := 0
	sawTruncated, sawEmptyTail := false, false
	cl.SetHook(func(cl *fakecluster.Cluster, r *fakecluster.Request) *fakecluster.Action {
		if r.ApiKey != 1 {
			return nil
		}
		mu.Lock()
		i := fetchIdx
		fetchIdx++
		var f fetchFault
		if i < len(c.Faults) {
			f = c.Faults[i]
		}
		mu.Unlock()
		act := &fakecluster.Action{Tag: f.Kind, Chunk: c.ChunkReads}
		act.Mutate = func(body map[string]any) {
			// classify what the broker is about to send (evidence + known-finding signature)
			for _, tv := range body["Topics"].([]any) {
				for _, pv := range tv.(map[string]any)["Partitions"].([]any) {
					rs, _ := pv.(map[string]any)["RecordSet"].(*refcodec.RecordSet)
					if rs == nil || len(rs.Raw) == 0 {
						continue
					}
					if _, err := refcodec.DecodeRecordSet(rs.Raw); err != nil {
						mu.Lock()
						sawTruncated = true
						mu.Unlock()
					} else if d, _ := refcodec.DecodeRecordSet(rs.Raw); d != nil && len(d.Batches) > 0 {
						lastB := d.Batches[len(d.Batches)-1]
						if lastB.Magic == 2 && len(lastB.Records) == 0 {
							mu.Lock()
							sawEmptyTail = true
							mu.Unlock()
						}
					}
				}
			}
		}
		switch f.Kind {
		case "code":
			act.ErrorCode = f.Code
		case "drop":
			act.DropBeforeApply = true
		case "stall":
			act.NoResponse = true
		case "leader-move":
			ids := cl.BrokerIDs()
			for _, id := range ids {
				if id != r.BrokerID {
					cl.MoveLeader(topic, int32(c.Part), id)
					break
				}
			}
		case "refuse-dial":
			mu.Lock()
			refuseLeft = 2
			mu.Unlock()
			for _, id := range cl.BrokerIDs() {
				nw.Refuse(cl.Broker(id).Addr(), syscall.ECONNREFUSED)
			}
			act.DropBeforeApply = true
		case "cut":
			act.CutResponse = true
			act.CutResponseAt = -1 // resolved below through RawResponse length: use Mutate-independent approach
		}
		if f.Kind == "cut" {
			// the cut position is a fraction of the final frame; computed when the body is known
			perK := f.CutPerK
			inner := act.Mutate
			act.Mutate = func(body map[string]any) {
				inner(body)
				fr, _, err := refcodec.EncodeResponse(r.API, r.Version, r.Corr, body, nil)
				if err == nil {
					act.RawResponse = fr
					act.CutResponseAt = len(fr) * perK / 1000
				}
			}
		}
		return act
	})
	// dial wrapper that lifts refusals after a couple of attempts
	d := &kafka.Dialer{Timeout: 2 * time.Second, ClientID: "c02", DialFunc: func(ctx context.Context, network, addr string) (net.Conn, error) {
		mu.Lock()
		if refuseLeft > 0 {
			refuseLeft--
			if refuseLeft == 0 {
				for _, id := range cl.BrokerIDs() {
					nw.Refuse(cl.Broker(id).Addr(), nil)
				}
			}
		}
		mu.Unlock()
		return nw.Dial(ctx, network, addr)
	}}

	fail := func(sig, format string, args ...any) {
		mu.Lock()
		et := sawEmptyTail
		mu.Unlock()
		if et {
			sig += "+empty-batch-at-response-end"
		}
		var b strings.Builder
		for _, ex := range cl.Journal() {
			if ex.ApiKey == 1 && ex.Body != nil {
				p := ex.Body["Topics"].([]any)[0].(map[string]any)["Partitions"].([]any)[0].(map[string]any)
				fmt.Fprintf(&b, "  fetch seq%d v%d b%d offset=%v max=%v tag=%q outcome=%s cut@%d/%d\n", ex.Seq, ex.Version, ex.BrokerID, p["FetchOffset"], p["PartitionMaxBytes"], ex.Tag, ex.Outcome, ex.CutAt, ex.RespBytes)
			}
		}
		s := b.String()
		if len(s) > 3000 {
			s = s[:3000] + "…"
		}
		ev.Fail(tb, "reader", sig, c, format+"\nfetch journal:\n%s", append(args, s)...)
	}

	// the position the next delivery must come from
	var next int64
	first, end := c.LogStart, c.Initial.End
	switch c.Start {
	case "first":
		next = first
	case "last":
		next = end
	default:
		next = c.StartOff
		if next < first {
			next = first // the reader clamps to the log start
		}
	}

	var fetch func(ctx context.Context) (kafka.Message, error)
	var setOffset func(o int64) error
	var closeFn func()
	if c.UseConn {
		ctx, cancel := context.WithTimeout(context.Background(), 5*time.Second)
		conn, err := d.DialLeader(ctx, "tcp", "b1.fake:9092", topic, c.Part)
		cancel()
		if err != nil {
			tb.Fatalf("harness: dial: %v", err)
		}
		whence := kafka.SeekAbsolute
		if _, err := conn.Seek(next, whence); err != nil {
			tb.Fatalf("harness: seek %d: %v", next, err)
		}
		var batch *kafka.Batch
		fetch = func(ctx context.Context) (kafka.Message, error) {
			dl, _ := ctx.Deadline()
			for {
				if batch == nil {
					conn.SetReadDeadline(time.Now().Add(time.Duration(c.MaxWaitMs)*time.Millisecond + time.Second))
					batch = conn.ReadBatchWith(kafka.ReadBatchConfig{MinBytes: c.MinBytes, MaxBytes: c.MaxBytes, MaxWait: time.Duration(c.MaxWaitMs) * time.Millisecond})
				}
				m, err := batch.ReadMessage()
				if err == nil {
					return m, nil
				}
				cerr := batch.Close()
				batch = nil
				if cerr != nil {
					return kafka.Message{}, cerr
				}
				if time.Now().After(dl) {
					return kafka.Message{}, context.DeadlineExceeded
				}
			}
		}
		setOffset = func(o int64) error { _, err := conn.Seek(o, kafka.SeekAbsolute|kafka.SeekDontCheck); return err }
		closeFn = func() {
			if batch != nil {
				batch.Close()
			}
			conn.Close()
		}
	} else {
		cfg := kafka.ReaderConfig{Brokers: []string{"b1.fake:9092"}, Topic: topic, Partition: c.Part, Dialer: d, MinBytes: c.MinBytes, MaxBytes: c.MaxBytes,
			MaxWait: time.Duration(c.MaxWaitMs) * time.Millisecond, QueueCapacity: c.QueueCap, ReadBackoffMin: time.Millisecond, ReadBackoffMax: 5 * time.Millisecond,
			ReadLagInterval: -1, MaxAttempts: 3, ReadBatchTimeout: 2 * time.Second}
		if os.Getenv("VERIF_DEBUG") != "" {
			cfg.Logger = kafka.LoggerFunc(func(f string, a ...any) { fmt.Printf("[reader] "+f+"\n", a...) })
			cfg.ErrorLogger = kafka.LoggerFunc(func(f string, a ...any) { fmt.Printf("[reader-err] "+f+"\n", a...) })
		}
		r := kafka.NewReader(cfg)
		seqAtSetOffset := cl.Seq()
		switch c.Start {
		case "first":
			r.SetOffset(kafka.FirstOffset)
		case "last":
			r.SetOffset(kafka.LastOffset)
		default:
			r.SetOffset(c.StartOff)
		}
		fetch = r.FetchMessage
		setOffset = r.SetOffset
		closeFn = func() { r.Close() }
		if c.Start == "last" {
			// The background fetcher starts lazily with the first FetchMessage; "last" is resolved then.
			// Force it now and wait until a fetch at the end offset has been issued, before the log changes.
			ctx0, cancel0 := context.WithTimeout(context.Background(), 30*time.Millisecond)
			if m, err := r.FetchMessage(ctx0); err == nil {
				cancel0()
				fail("c02/unexpected-delivery", "positioned at the end (%d) of an unchanged log, yet offset %d was delivered", end, m.Offset)
				return
			}
			cancel0()
			deadline := time.Now().Add(5 * time.Second)
		wait:
			for time.Now().Before(deadline) {
				for _, ex := range cl.Journal() {
					if ex.ApiKey == 1 && ex.Seq > seqAtSetOffset && ex.Body != nil {
						p := ex.Body["Topics"].([]any)[0].(map[string]any)["Partitions"].([]any)[0].(map[string]any)
						if p["FetchOffset"].(int64) == end {
							break wait
						}
					}
				}
				time.Sleep(time.Millisecond)
			}
		}
	}
	defer closeFn()

	count, surfaced := 0, 0
	expectNext := func() (refcodec.Record, bool) {
		for _, r := range cl.Records(topic, int32(c.Part)) {
			if r.Offset >= next {
				return r, true
			}
		}
		return refcodec.Record{}, false
	}
	everStored := map[int64]refcodec.Record{}
	remember := func() {
		for _, r := range cl.Records(topic, int32(c.Part)) {
			everStored[r.Offset] = r
		}
	}
	remember()
	deliverOne := func() bool {
		want, ok := expectNext()
		timeout := 10 * time.Second
		if !ok {
			timeout = 60 * time.Millisecond
		}
		ctx, cancel := context.WithTimeout(context.Background(), timeout)
		var m kafka.Message
		var err error
		for {
			m, err = fetch(ctx)
			if err == nil || ctx.Err() != nil || c.UseConn {
				break
			}
			// the Reader surfaces broker errors it does not handle itself and carries on; what
			// the statement constrains is the sequence of records, checked on the next delivery
			lab["error_surfaced_then_continued"] = true
			surfaced++
			if surfaced > 200 {
				break
			}
		}
		cancel()
		if err != nil {
			if !ok && (errors.Is(err, context.DeadlineExceeded) || errors.Is(err, kafka.RequestTimedOut)) {
				return false // nothing to deliver, nothing delivered
			}
			if ok && (errors.Is(err, context.DeadlineExceeded) || surfaced > 200) {
				fail("c02/no-delivery", "record at offset %d is stored (position %d) but was not delivered within %v (last error %v)", want.Offset, next, timeout, err)
				panic(stop{})
			}
			if c.UseConn {
				// a bare Conn surfaces broker errors and closes itself on transport errors; the program ends here
				lab["conn_error_ends_program"] = true
				panic(stop{})
			}
			return false
		}
		if !ok {
			fail("c02/unexpected-delivery", "a message at offset %d was delivered but no stored record is at or after position %d", m.Offset, next)
			panic(stop{})
		}
		if m.Offset != want.Offset {
			// a record removed by a log-start move may still be delivered if it had been prefetched
			if old, was := everStored[m.Offset]; was && m.Offset >= next && m.Offset < want.Offset {
				if d := diffMessage(m, old); d != "" {
					fail("c02/content", "delivered message differs from the stored record: %s", d)
					panic(stop{})
				}
				next = m.Offset + 1
				count++
				return true
			}
			kind := "gap"
			if m.Offset < next {
				kind = "duplicate-or-reorder"
			}
			fail("c02/"+kind, "delivered offset %d, the next stored record at or after position %d is %d", m.Offset, next, want.Offset)
			panic(stop{})
		}
		if d := diffMessage(m, want); d != "" {
			fail("c02/content", "offset %d: delivered message differs from the stored record: %s", m.Offset, d)
			panic(stop{})
		}
		next = m.Offset + 1
		count++
		return true
	}
	func() {
		defer func() {
			if p := recover(); p != nil {
				if _, ok := p.(stop); !ok {
					panic(p)
				}
			}
		}()
		for _, s := range c.Steps {
			switch s.Op {
			case "fetch":
				for i := 0; i < s.N; i++ {
					if !deliverOne() {
						break
					}
				}
			case "setoffset":
				if err := setOffset(s.Offset); err != nil {
					fail("c02/setoffset-error", "SetOffset(%d): %v", s.Offset, err)
					panic(stop{})
				}
				next = s.Offset
				lab["setoffset"] = true
				if _, inModel := everStored[s.Offset]; !inModel {
					lab["setoffset_into_hole"] = true
				}
			case "setoffset-race":
				// SetOffset arrives while a FetchMessage call is in progress; the call may still return a message of the old
				// position (it started before), the reader's position afterwards is the new one: a SetOffset to "just after
				// that message" must take effect
				type fr struct {
					m   kafka.Message
					err error
				}
				ch := make(chan fr, 1)
				fctx, fcancel := context.WithTimeout(context.Background(), 2*time.Second)
				go func() { m, err := fetch(fctx); ch <- fr{m, err} }()
				time.Sleep(time.Duration(s.N) * time.Microsecond)
				if err := setOffset(s.Offset); err != nil {
					fcancel()
					fail("c02/setoffset-error", "SetOffset(%d): %v", s.Offset, err)
					panic(stop{})
				}
				res := <-ch
				fcancel()
				lab["setoffset_during_fetch"] = true
				next = s.Offset
				if res.err == nil {
					if old, was := everStored[res.m.Offset]; !was {
						fail("c02/unexpected-delivery", "FetchMessage racing with SetOffset(%d) returned offset %d, which was never stored", s.Offset, res.m.Offset)
						panic(stop{})
					} else if d := diffMessage(res.m, old); d != "" {
						fail("c02/content", "offset %d: delivered message differs from the stored record: %s", res.m.Offset, d)
						panic(stop{})
					}
					target := res.m.Offset + 1
					if err := setOffset(target); err != nil {
						fail("c02/setoffset-error", "SetOffset(%d): %v", target, err)
						panic(stop{})
					}
					next = target
					count++
				}
			case "append":
				cl.AppendBatches(topic, int32(c.Part), s.Layout.Batches...)
				for _, l := range s.Layout.Labels {
					lab[l] = true
				}
				remember()
				lab["append_during_run"] = true
			case "trimstart":
				cl.SetLogRange(topic, int32(c.Part), s.Offset, 0)
				if next < s.Offset {
					// records below the new log start are gone; skipping them is correct, delivering prefetched ones too
					lab["log_start_moved_past_position"] = true
				}
			}
		}
		// drain: everything stored from the position must be delivered, then nothing more
		for deliverOne() {
		}
	}()
	mu.Lock()
	if sawTruncated {
		lab["truncated_at_maxbytes"] = true
	}
	if sawEmptyTail {
		lab["empty_batch_at_response_end"] = true
	}
	mu.Unlock()
	for _, ex := range cl.Journal() {
		if ex.ApiKey == 1 && ex.Tag != "" && ex.Tag != "ok" {
			lab["fault_"+ex.Tag] = true
			if ex.Tag == "cut" && ex.CutAt > 0 && ex.CutAt < ex.RespBytes {
				lab["cut_mid_response"] = true
			}
		}
	}
	for _, v := range cl.Violations() {
		fail("c02/malformed-request", "the fake broker rejected a request: %s", v)
	}
	for k := range lab {
		labels = append(labels, k)
	}
	sort.Strings(labels)
	ev.Count("messages_delivered", int64(count))
	return labels
}

type stop struct{}

func genCase(t *rapid.T) readerCase {
	c := readerCase{
		FetchMax:  rapid.SampledFrom([]int16{2, 5, 10}).Draw(t, "fetchMax"),
		Brokers:   rapid.IntRange(1, 3).Draw(t, "brokers"),
		MinBytes:  1,
		// the Reader's read deadline is MaxWait and it asks the broker to wait 3/4 of it: leave
		// tens of milliseconds of slack for a loaded machine
		MaxWaitMs: rapid.IntRange(150, 400).Draw(t, "maxWaitMs"),
		QueueCap:  rapid.SampledFrom([]int{1, 2, 5, 100}).Draw(t, "queueCap"),
		UseConn:   rapid.IntRange(0, 4).Draw(t, "useConn") == 0,
	}
	o := logsim.Opts{MaxMagic: 2, MinMagic: 0, MaxRecords: 40, MaxPerBatch: 6, Big: rapid.IntRange(0, 9).Draw(t, "big") == 0, Holes: true, EmptyBatch: true, Start: int64(rapid.SampledFrom([]int{0, 0, 3, 1000}).Draw(t, "logBase"))}
	if c.FetchMax == 2 {
		o.MaxMagic = 1
	} else {
		o.MinMagic = int8(rapid.SampledFrom([]int{0, 1, 2, 2, 2}).Draw(t, "minMagic"))
	}
	c.Initial = logsim.Gen(t, o)
	c.LogStart = o.Start
	// MaxBytes: small enough to force one-batch responses and truncation, or large
	switch rapid.IntRange(0, 3).Draw(t, "maxBytesKind") {
	case 0:
		c.MaxBytes = rapid.IntRange(1, 200).Draw(t, "maxBytesTiny")
	case 1:
		c.MaxBytes = rapid.IntRange(200, 2000).Draw(t, "maxBytesSmall")
	default:
		c.MaxBytes = 1 << 20
	}
	if c.MaxBytes < c.MinBytes {
		c.MaxBytes = c.MinBytes
	}
	c.ChunkReads = rapid.SampledFrom([]int{0, 0, 1, 7, 100}).Draw(t, "chunk")
	if rapid.IntRange(0, 2).Draw(t, "morePartitions") == 0 {
		c.Part = rapid.IntRange(0, 2).Draw(t, "part")
		c.ExtraParts = rapid.IntRange(0, 2).Draw(t, "extraParts")
		c.ReverseParts = rapid.Bool().Draw(t, "reverseParts")
	}
	stored := c.Initial.Records
	switch rapid.IntRange(0, 4).Draw(t, "startKind") {
	case 0:
		c.Start = "last"
	case 1, 2:
		c.Start = "first"
	default:
		c.Start = "offset"
		// inside the log: a stored offset, a hole, a batch interior, or the end
		c.StartOff = o.Start + int64(rapid.IntRange(0, int(c.Initial.End-o.Start)).Draw(t, "startOff"))
	}
	if rapid.IntRange(0, 3).Draw(t, "openTxn") == 0 && c.Initial.End > o.Start+1 {
		c.OpenTxnAt = o.Start + 1 + int64(rapid.IntRange(0, int(c.Initial.End-o.Start)-2).Draw(t, "openTxnAt"))
		if c.Start == "offset" && rapid.Bool().Draw(t, "startAtLSO") {
			c.StartOff = c.OpenTxnAt // the position the reader starts from is exactly the last stable offset
		}
	}
	end := c.Initial.End
	nSteps := rapid.IntRange(1, 6).Draw(t, "nSteps")
	for i := 0; i < nSteps; i++ {
		switch rapid.IntRange(0, 5).Draw(t, "op") {
		case 0, 1, 2:
			c.Steps = append(c.Steps, step{Op: "fetch", N: rapid.IntRange(1, 15).Draw(t, "n")})
		case 3:
			if c.UseConn {
				continue
			}
			st := step{Op: "setoffset", Offset: o.Start + int64(rapid.IntRange(0, int(end-o.Start)).Draw(t, "setOff"))}
			if rapid.IntRange(0, 3).Draw(t, "beyondEnd") == 0 {
				// a position the log has not reached yet: nothing is delivered until the log grows past it, and then the
				// first message is the first record at or above it (never an earlier one)
				st.Offset = end + int64(rapid.IntRange(1, 3).Draw(t, "beyondBy"))
				c.Steps = append(c.Steps, st)
				o2 := o
				o2.Start, o2.MaxRecords, o2.MinMagic = end, 12, 0
				if len(c.Initial.Batches) > 0 {
					o2.MinMagic = lastMagic(c, stored)
				}
				l := logsim.Gen(t, o2)
				end = l.End
				c.Steps = append(c.Steps, step{Op: "append", Layout: &l}, step{Op: "fetch", N: rapid.IntRange(1, 6).Draw(t, "beyondFetch")})
				continue
			}
			if rapid.Bool().Draw(t, "duringFetch") {
				st.Op, st.N = "setoffset-race", rapid.SampledFrom([]int{0, 50, 300, 2000}).Draw(t, "raceUs")
			}
			c.Steps = append(c.Steps, st)
		case 4:
			o2 := o
			o2.Start = end
			o2.MaxRecords = 12
			o2.MinMagic = 0
			if len(c.Initial.Batches) > 0 {
				o2.MinMagic = lastMagic(c, stored)
			}
			l := logsim.Gen(t, o2)
			end = l.End
			c.Steps = append(c.Steps, step{Op: "append", Layout: &l})
		}
	}
	nf := rapid.IntRange(0, 8).Draw(t, "nFaults")
	if c.UseConn {
		nf = 0 // a bare Conn has no recovery; its fault behaviour belongs to C11/C17
	}
	for i := 0; i < nf; i++ {
		f := fetchFault{Kind: rapid.SampledFrom([]string{"ok", "ok", "cut", "cut", "code", "leader-move", "drop", "refuse-dial", "stall"}).Draw(t, "fault")}
		switch f.Kind {
		case "cut":
			f.CutPerK = rapid.IntRange(0, 1000).Draw(t, "cutPerMille")
		case "code":
			f.Code = rapid.SampledFrom([]int16{6, 3, 7, 1, 5, 9}).Draw(t, "code")
		}
		c.Faults = append(c.Faults, f)
	}
	return c
}

func lastMagic(c readerCase, _ []refcodec.Record) int8 {
	m := c.Initial.Batches[len(c.Initial.Batches)-1].Magic
	for _, s := range c.Steps {
		if s.Op == "append" && len(s.Layout.Batches) > 0 {
			m = s.Layout.Batches[len(s.Layout.Batches)-1].Magic
		}
	}
	return m
}

func TestReader(t *testing.T) {
	rapid.Check(t, func(t *rapid.T) {
		c := genCase(t)
		ev.InFlight("reader", c)
		labels := run(t, c)
		nt := len(c.Initial.Batches) >= 2 && len(labels) > 0
		kinds := map[string]int{}
		for _, f := range c.Faults {
			kinds[f.Kind]++
		}
		ev.Case(fmt.Sprintf("v%d conn%v start%s mb%d q%d steps%d faults%v %v", c.FetchMax, c.UseConn, c.Start, c.MaxBytes, c.QueueCap, len(c.Steps), kinds, labels), nt, labels...)
		ev.Sample(map[string]any{"fetch_max": c.FetchMax, "use_conn": c.UseConn, "start": c.Start, "start_offset": c.StartOff, "max_bytes": c.MaxBytes, "batches": len(c.Initial.Batches), "records": len(c.Initial.Records), "steps": c.Steps, "faults": c.Faults, "labels": labels})
	})
}
