// Package c14 decides property C14: group balancers assign every partition to
// exactly one subscriber, evenly.
package c14

import (
	"fmt"
	"reflect"
	"sort"
	"testing"

	kafka "github.com/segmentio/kafka-go"
	"pgregory.net/rapid"

	"verif/internal/ev"
)

func TestMain(m *testing.M) { ev.Main(m, "C14") }

type member struct {
	ID     string   `json:"id"`
	Topics []string `json:"topics"`
	Rack   string   `json:"rack"`
}

type part struct {
	Topic string `json:"topic"`
	ID    int    `json:"id"`
	Rack  string `json:"rack"` // rack of the partition leader
	// the partition is listed with an error of its own (what Conn.ReadPartitions gives for a partition reported with, say,
	// LeaderNotAvailable): it is still a partition of the topic and has to be given to somebody
	Err bool `json:"err,omitempty"`
	// Replicas: racks of the brokers that hold replicas of the partition (listed as kafka.Partition.Replicas / Isr, the way
	// Conn.ReadPartitions fills them).  The rack clause of the statement speaks of the leader's rack only.
	Replicas []string `json:"replicas,omitempty"`
}

type groupCase struct {
	Balancer string   `json:"balancer"` // range | roundrobin | rack-affinity
	Members  []member `json:"members"`
	Parts    []part   `json:"partitions"`
	Perm     []int    `json:"perm"`    // alternative listing order of the members
	Repeats  int      `json:"repeats"` // evaluations in fresh maps (rack-affinity)
}

func balancerOf(name string) kafka.GroupBalancer {
	switch name {
	case "range":
		return kafka.RangeGroupBalancer{}
	case "roundrobin":
		return kafka.RoundRobinGroupBalancer{}
	default:
		return kafka.RackAffinityGroupBalancer{}
	}
}

func toLib(c groupCase, order []int) ([]kafka.GroupMember, []kafka.Partition) {
	ms := make([]kafka.GroupMember, 0, len(c.Members))
	for i := range c.Members {
		m := c.Members[i]
		if order != nil {
			m = c.Members[order[i]]
		}
		ms = append(ms, kafka.GroupMember{ID: m.ID, Topics: append([]string(nil), m.Topics...), UserData: []byte(m.Rack)})
	}
	ps := make([]kafka.Partition, 0, len(c.Parts))
	for _, p := range c.Parts {
		lp := kafka.Partition{Topic: p.Topic, ID: p.ID, Leader: kafka.Broker{ID: 1, Rack: p.Rack}}
		if p.Err {
			lp.Error = kafka.LeaderNotAvailable
		}
		for i, r := range p.Replicas {
			b := kafka.Broker{Host: "replica", Port: 9092, ID: 2 + i, Rack: r}
			lp.Replicas = append(lp.Replicas, b)
			lp.Isr = append(lp.Isr, b)
		}
		ps = append(ps, lp)
	}
	return ms, ps
}

func subscribes(m member, topic string) bool {
	for _, t := range m.Topics {
		if t == topic {
			return true
		}
	}
	return false
}

// validate is the validity predicate of the statement; many outputs are legal.
func validate(tb ev.TB, c groupCase, got kafka.GroupMemberAssignments, run string) bool {
	byID := map[string]member{}
	for _, m := range c.Members {
		byID[m.ID] = m
	}
	listed := map[string][]part{} // topic -> partitions in listed order
	for _, p := range c.Parts {
		listed[p.Topic] = append(listed[p.Topic], p)
	}
	subs := map[string][]member{} // topic -> subscribers sorted by id
	for _, m := range c.Members {
		for _, t := range m.Topics {
			subs[t] = append(subs[t], m)
		}
	}
	for _, s := range subs {
		sort.Slice(s, func(i, j int) bool { return s[i].ID < s[j].ID })
	}

	fail := func(sig, format string, args ...any) bool {
		ev.Fail(tb, "group", c.Balancer+"/"+sig, c, "%s (%s): %s; assignment=%v", c.Balancer, run, fmt.Sprintf(format, args...), got)
		return false
	}

	// nothing to anyone else
	owner := map[string]map[int]string{}
	for mid, byTopic := range got {
		m, ok := byID[mid]
		if !ok {
			if len(byTopic) > 0 {
				return fail("unknown-member", "assignment names unknown member %q", mid)
			}
			continue
		}
		for topic, ids := range byTopic {
			if len(ids) == 0 {
				continue
			}
			if !subscribes(m, topic) {
				return fail("not-subscribed", "member %q got %v of topic %q it does not subscribe to", mid, ids, topic)
			}
			for _, id := range ids {
				found := false
				for _, p := range listed[topic] {
					if p.ID == id {
						found = true
					}
				}
				if !found {
					return fail("unknown-partition", "member %q got partition %d of %q which does not exist", mid, id, topic)
				}
				if owner[topic] == nil {
					owner[topic] = map[int]string{}
				}
				if prev, dup := owner[topic][id]; dup {
					return fail("duplicate", "partition %s/%d assigned to both %q and %q", topic, id, prev, mid)
				}
				owner[topic][id] = mid
			}
		}
	}
	// every partition of every subscribed topic exactly once; balance per topic
	for topic, ss := range subs {
		ps := listed[topic]
		for _, p := range ps {
			if _, ok := owner[topic][p.ID]; !ok {
				return fail("unassigned", "partition %s/%d has subscribers but no owner", topic, p.ID)
			}
		}
		lo, hi := 1<<30, -1
		for _, m := range ss {
			n := len(got[m.ID][topic])
			if n < lo {
				lo = n
			}
			if n > hi {
				hi = n
			}
		}
		if hi-lo > 1 {
			return fail("unbalanced", "topic %q: subscriber loads range from %d to %d", topic, lo, hi)
		}
		M := len(ss)
		idx := map[int]int{}
		for i, p := range ps {
			idx[p.ID] = i
		}
		switch c.Balancer {
		case "range":
			for _, m := range ss {
				ids := got[m.ID][topic]
				for k := 1; k < len(ids); k++ {
					if idx[ids[k]] != idx[ids[k-1]]+1 {
						return fail("not-contiguous", "topic %q: member %q got %v, not a contiguous run of the listed partitions", topic, m.ID, ids)
					}
				}
			}
		case "roundrobin":
			for _, m := range ss {
				ids := got[m.ID][topic]
				for k := 1; k < len(ids); k++ {
					if idx[ids[k]] != idx[ids[k-1]]+M {
						return fail("not-kth", "topic %q: member %q got %v, not every %d-th listed partition", topic, m.ID, ids, M)
					}
				}
				if len(ids) > 0 && idx[ids[0]] >= M {
					return fail("not-kth", "topic %q: member %q starts at listed index %d >= %d subscribers", topic, m.ID, idx[ids[0]], M)
				}
			}
		case "rack-affinity":
			if M == 0 {
				continue
			}
			floor := len(ps) / M
			ledIn := map[string]int{}
			for _, p := range ps {
				ledIn[p.Rack]++
			}
			membersIn := map[string]int{}
			rackOf := map[string]string{}
			for _, m := range ss {
				membersIn[m.Rack]++
				rackOf[m.ID] = m.Rack
			}
			local := map[string]int{}
			for _, p := range ps {
				if rackOf[owner[topic][p.ID]] == p.Rack {
					local[p.Rack]++
				}
			}
			for z, led := range ledIn {
				want := membersIn[z] * floor
				if led < want {
					want = led
				}
				if local[z] < want {
					return fail("rack-bound", "topic %q rack %q: %d partitions led there are on members of that rack, want >= min(%d led, %d members x floor %d)", topic, z, local[z], led, membersIn[z], floor)
				}
			}
		}
	}
	return true
}

func runGroup(tb ev.TB, c groupCase) {
	b := balancerOf(c.Balancer)
	reps := c.Repeats
	if reps < 1 {
		reps = 1
	}
	var first kafka.GroupMemberAssignments
	for r := 0; r < reps; r++ {
		ms, ps := toLib(c, nil)
		var got kafka.GroupMemberAssignments
		func() {
			defer func() {
				if p := recover(); p != nil {
					ev.Fail(tb, "group", c.Balancer+"/panic", c, "%s AssignGroups panicked: %v", c.Balancer, p)
				}
			}()
			got = b.AssignGroups(ms, ps)
		}()
		if !validate(tb, c, got, fmt.Sprintf("run %d", r)) {
			return
		}
		if r == 0 {
			first = got
		}
	}
	if c.Balancer != "rack-affinity" && len(c.Perm) == len(c.Members) {
		ms, ps := toLib(c, c.Perm)
		got := b.AssignGroups(ms, ps)
		if !equalAssign(first, got) {
			ev.Fail(tb, "group", c.Balancer+"/order-dependent", c, "%s: listing members in order %v changes the assignment: %v vs %v", c.Balancer, c.Perm, first, got)
		}
	}
}

func equalAssign(a, b kafka.GroupMemberAssignments) bool {
	norm := func(x kafka.GroupMemberAssignments) map[string]map[string][]int {
		o := map[string]map[string][]int{}
		for m, bt := range x {
			for t, ids := range bt {
				if len(ids) == 0 {
					continue
				}
				if o[m] == nil {
					o[m] = map[string][]int{}
				}
				o[m][t] = ids
			}
		}
		return o
	}
	return reflect.DeepEqual(norm(a), norm(b))
}

func init() { ev.Register("group", runGroup) }

func TestReplay(t *testing.T) { ev.RunReplay(t) }

func labelsOf(c groupCase) (labels []string, nontrivial bool) {
	subs := map[string]int{}
	for _, m := range c.Members {
		for _, t := range m.Topics {
			subs[t]++
		}
	}
	np := map[string]int{}
	for _, p := range c.Parts {
		np[p.Topic]++
	}
	for t, M := range subs {
		P := np[t]
		if P > 0 && M > 1 {
			nontrivial = true
		}
		if M > 0 && P%M != 0 {
			labels = append(labels, "uneven_division")
		}
		if M > P {
			labels = append(labels, "more_members_than_partitions")
		}
	}
	for _, m := range c.Members {
		if len(m.Topics) < len(np) {
			labels = append(labels, "member_without_topic")
			break
		}
	}
	for _, p := range c.Parts {
		if len(p.Replicas) > 0 && p.Rack == "" {
			labels = append(labels, "rackless_leader_with_racked_replicas")
			break
		}
	}
	if c.Balancer == "rack-affinity" {
		racks := map[string]bool{}
		for _, m := range c.Members {
			racks[m.Rack] = true
		}
		for _, p := range c.Parts {
			if !racks[p.Rack] {
				labels = append(labels, "rack_with_no_member")
				break
			}
		}
	}
	for _, p := range c.Parts {
		if p.Err {
			labels = append(labels, "partition_listed_with_error")
			break
		}
	}
	labels = append(labels, "balancer_"+c.Balancer)
	return
}

var topicNames = []string{"t0", "t1", "t2", "t3", "t4"}

// TestExhaustiveSmall enumerates small groups completely: 1..4 members, each
// subscribing to any subset of 2 topics, 0..5 partitions per topic, all listing
// orders (range, roundrobin); for rack-affinity additionally every rack
// placement of members over {"",a,b} and leaders over {"",a,b,c} (one topic,
// 0..6 partitions; two topics sampled).  Quick runs the slice i%K == seed%K.
func TestExhaustiveSmall(t *testing.T) {
	K := 1
	if ev.Tier() != "thorough" {
		K = 12
	}
	sel := int(ev.Seed() % int64(K))
	idx := 0
	take := func() bool { idx++; return idx%K == sel }
	var n int64
	ids := []string{"m-a", "m-b", "m-c", "m-d"}
	perms := map[int][][]int{}
	for M := 1; M <= 4; M++ {
		perms[M] = permutations(M)
	}
	lbl := map[string]int64{}
	for _, bal := range []string{"range", "roundrobin"} {
		for M := 1; M <= 4; M++ {
			nsub := 1
			for i := 0; i < M; i++ {
				nsub *= 4
			}
			for sub := 0; sub < nsub; sub++ {
				for P0 := 0; P0 <= 5; P0++ {
					for P1 := 0; P1 <= 5; P1++ {
						if !take() {
							continue
						}
						c := groupCase{Balancer: bal}
						s := sub
						for i := 0; i < M; i++ {
							m := member{ID: ids[i]}
							if s&1 != 0 {
								m.Topics = append(m.Topics, "t0")
							}
							if s&2 != 0 {
								m.Topics = append(m.Topics, "t1")
							}
							s >>= 2
							c.Members = append(c.Members, m)
						}
						// partitions of the two topics interleaved, ids ascending per topic
						for k := 0; k < P0 || k < P1; k++ {
							if k < P0 {
								c.Parts = append(c.Parts, part{Topic: "t0", ID: k})
							}
							if k < P1 {
								c.Parts = append(c.Parts, part{Topic: "t1", ID: k})
							}
						}
						ls, _ := labelsOf(c)
						for _, perm := range perms[M] {
							c.Perm = perm
							runGroup(t, c)
							n++
						}
						for _, l := range ls {
							lbl[l] += int64(len(perms[M]))
						}
						if n%5000 < int64(len(perms[M])) {
							ev.SampleTagged("exhaustive-"+bal, 1, c)
						}
					}
				}
			}
		}
	}
	racksM := []string{"", "a", "b"}
	racksP := []string{"", "a", "b", "c"}
	for M := 1; M <= 4; M++ {
		nm := 1
		for i := 0; i < M; i++ {
			nm *= len(racksM)
		}
		for mr := 0; mr < nm; mr++ {
			for P := 0; P <= 6; P++ {
				np := 1
				for i := 0; i < P; i++ {
					np *= len(racksP)
				}
				for pr := 0; pr < np; pr++ {
					if !take() {
						continue
					}
					c := groupCase{Balancer: "rack-affinity", Repeats: 6}
					x := mr
					for i := 0; i < M; i++ {
						c.Members = append(c.Members, member{ID: ids[i], Topics: []string{"t0"}, Rack: racksM[x%len(racksM)]})
						x /= len(racksM)
					}
					y := pr
					for k := 0; k < P; k++ {
						pp := part{Topic: "t0", ID: k, Rack: racksP[y%len(racksP)]}
						if (mr+pr)%2 == 1 {
							// every other case lists replicas too, on brokers of other racks than the leader's
							pp.Replicas = []string{racksP[(y+k+1)%len(racksP)], racksP[(k+2)%len(racksP)]}
						}
						c.Parts = append(c.Parts, pp)
						y /= len(racksP)
					}
					runGroup(t, c)
					n++
					ls, _ := labelsOf(c)
					for _, l := range ls {
						lbl[l]++
					}
					if n%50000 == 0 {
						ev.SampleTagged("exhaustive-rack", 2, c)
					}
				}
			}
		}
	}
	ev.Bulk(n, "exhaustive_small")
	for l, v := range lbl {
		ev.Count("exhaustive_label_"+l, v)
	}
}

func permutations(n int) [][]int {
	var out [][]int
	var rec func(cur []int, used int)
	rec = func(cur []int, used int) {
		if len(cur) == n {
			out = append(out, append([]int(nil), cur...))
			return
		}
		for i := 0; i < n; i++ {
			if used&(1<<i) == 0 {
				rec(append(cur, i), used|1<<i)
			}
		}
	}
	rec(nil, 0)
	return out
}

func genGroup(t *rapid.T) groupCase {
	c := groupCase{Balancer: rapid.SampledFrom([]string{"range", "roundrobin", "rack-affinity"}).Draw(t, "balancer")}
	big := rapid.IntRange(0, 4).Draw(t, "big") == 0
	maxM, maxT, maxP := 6, 3, 12
	if big {
		maxM, maxT, maxP = 30, 5, 200
	}
	M := rapid.IntRange(1, maxM).Draw(t, "members")
	T := rapid.IntRange(1, maxT).Draw(t, "topics")
	racks := []string{"", "a", "b", "c", "d"}[:rapid.IntRange(1, 5).Draw(t, "nracks")]
	if rapid.IntRange(0, 3).Draw(t, "realRackNames") == 0 {
		// names as cloud providers spell them: upper case, digits, blanks; a rack is the same rack only if spelt the same
		racks = []string{"", "AZ-1", "az-1", "AZ-2 ", "eu-west-1a"}[:rapid.IntRange(2, 5).Draw(t, "nRealRacks")]
	}
	// member ids: distinct, not in sorted order, of mixed length
	idGen := rapid.StringMatching(`[a-z]{1,3}-[0-9a-f]{1,6}`)
	seen := map[string]bool{}
	for i := 0; i < M; i++ {
		id := idGen.Draw(t, "id")
		for seen[id] {
			id += "x"
		}
		seen[id] = true
		m := member{ID: id, Rack: rapid.SampledFrom(racks).Draw(t, "mrack")}
		mask := rapid.IntRange(0, (1<<T)-1).Draw(t, "submask")
		if rapid.IntRange(0, 2).Draw(t, "allTopics") > 0 {
			mask = (1 << T) - 1
		}
		for k := 0; k < T; k++ {
			if mask&(1<<k) != 0 {
				m.Topics = append(m.Topics, topicNames[k])
			}
		}
		c.Members = append(c.Members, m)
	}
	// topics that exist: possibly one more or one fewer than subscribed
	for k := 0; k < T; k++ {
		P := rapid.IntRange(0, maxP).Draw(t, "P")
		order := seq(P)
		if P > 0 && rapid.IntRange(0, 5).Draw(t, "shuffledListing") == 0 {
			order = rapid.Permutation(order).Draw(t, "listing")
		}
		for i := 0; i < P; i++ {
			id := order[i]
			c.Parts = append(c.Parts, part{Topic: topicNames[k], ID: id, Rack: rapid.SampledFrom(append(racks, "zz")).Draw(t, "prack")})
		}
	}
	if rapid.Bool().Draw(t, "withReplicas") {
		for i := range c.Parts {
			c.Parts[i].Replicas = rapid.SliceOfN(rapid.SampledFrom(racks), 1, 3).Draw(t, "replicaRacks")
		}
	}
	if rapid.Bool().Draw(t, "extraTopic") {
		c.Parts = append(c.Parts, part{Topic: "unsubscribed", ID: 0, Rack: "a"})
	}
	if len(c.Parts) > 0 && rapid.IntRange(0, 3).Draw(t, "erroredPartitions") == 0 {
		for k := rapid.IntRange(1, 3).Draw(t, "nErrored"); k > 0; k-- {
			c.Parts[rapid.IntRange(0, len(c.Parts)-1).Draw(t, "errored")].Err = true
		}
	}
	if len(c.Parts) > 1 && rapid.IntRange(0, 2).Draw(t, "interleaveTopics") == 0 {
		// the partitions of different topics need not be listed topic by topic
		c.Parts = rapid.Permutation(c.Parts).Draw(t, "globalListing")
	}
	c.Perm = rapid.Permutation(seq(M)).Draw(t, "perm")
	if c.Balancer == "rack-affinity" {
		c.Repeats = 8
	}
	return c
}

func seq(n int) []int {
	s := make([]int, n)
	for i := range s {
		s[i] = i
	}
	return s
}

func TestRandomGroups(t *testing.T) {
	rapid.Check(t, func(t *rapid.T) {
		c := genGroup(t)
		runGroup(t, c)
		ls, nt := labelsOf(c)
		ev.Case(fmt.Sprintf("%+v", c), nt, ls...)
		ev.Sample(c)
	})
}
