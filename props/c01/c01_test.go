// Package c01 decides property C01: Writer — acknowledged messages are in the
// log; failures are attributed exactly.
package c01

import (
	"context"
	"errors"
	"fmt"
	"os"
	"sort"
	"strings"
	"testing"

	"pgregory.net/rapid"

	"verif/internal/ev"
	"verif/internal/wsim"
)

func TestMain(m *testing.M) { ev.Main(m, "C01") }

func init() { ev.Register("writer", func(tb ev.TB, c wsim.Case) { check(tb, c) }) }

func TestReplay(t *testing.T) { ev.RunReplay(t) }

func isTimeout(err error) bool {
	if err == nil {
		return false
	}
	var te interface{ Timeout() bool }
	return errors.Is(err, context.DeadlineExceeded) || errors.Is(err, os.ErrDeadlineExceeded) || (errors.As(err, &te) && te.Timeout()) || strings.Contains(err.Error(), "i/o timeout")
}

// check runs the scenario and evaluates the C01 oracle; it returns the result
// and labels for the evidence.
func check(tb ev.TB, c wsim.Case) (*wsim.Result, []string) {
	res := wsim.Run(c)
	fail := func(sig, format string, args ...any) {
		ev.Fail(tb, "writer", sig, c, format+"\n%s", append(args, summary(res))...)
	}
	if res.CloseHung {
		// C09 owns liveness; a hang makes the rest of the evidence unusable
		ev.Inconclusive("close_hung")
		return res, nil
	}
	for _, v := range res.Violations {
		fail("c01/malformed-request", "the fake broker rejected a request as malformed: %s", v)
		return res, nil
	}
	var labels []string
	// index
	type key struct {
		topic string
		part  int32
	}
	ackedBy := map[wsim.ID]int64{}       // id -> seq of an acknowledged applied request
	appliedSeqs := map[wsim.ID][]int64{} // id -> applied request seqs, in order
	seenIn := map[wsim.ID][]wsim.ProduceSeen{}
	for _, p := range res.Produces {
		dup := map[wsim.ID]bool{}
		for _, id := range p.IDs {
			if dup[id] {
				fail("c01/dup-in-request", "message %v appears twice in produce request seq %d", id, p.Seq)
				return res, nil
			}
			dup[id] = true
			seenIn[id] = append(seenIn[id], p)
			if p.Applied {
				appliedSeqs[id] = append(appliedSeqs[id], p.Seq)
			}
			if p.Acked {
				if _, ok := ackedBy[id]; !ok {
					ackedBy[id] = p.Seq
				}
			}
		}
	}
	// (a) every applied request carrying m targets (topic(m), chosen partition(m)); nothing anywhere else
	for id, ps := range seenIn {
		ch, ok := res.Choice[id]
		if !ok {
			fail("c01/no-balancer-decision", "message %v reached the broker but the balancer was never asked about it", id)
			return res, nil
		}
		wantTopic := ch[0].(string)
		if wantTopic == "" {
			wantTopic = c.Topics[0]
		}
		wantPart := int32(ch[1].(int))
		for _, p := range ps {
			if p.Topic != wantTopic || p.Partition != wantPart {
				fail("c01/wrong-partition", "message %v was sent to %s/%d, the balancer chose %s/%d (of %d offered)", id, p.Topic, p.Partition, wantTopic, wantPart, res.OfferedN[id])
				return res, nil
			}
		}
		// the balancer is offered the partitions of the message's own topic (partition counts never change inside a scenario)
		for ti, tn := range c.Topics {
			if tn == wantTopic && res.OfferedN[id] != c.Partitions[ti] {
				fail("c01/offered-partitions", "message %v goes to topic %s, which has %d partitions, but the balancer was offered %d partitions to choose from", id, wantTopic, c.Partitions[ti], res.OfferedN[id])
				return res, nil
			}
		}
		if bad, ok := res.OfferedBad[id]; ok {
			fail("c01/offered-partitions", "message %v goes to topic %s: the balancer was offered a list that is not 0..n-1 (%s)", id, wantTopic, bad)
			return res, nil
		}
		if n := res.OfferedN[id]; int(wantPart) >= n || wantPart < 0 {
			fail("c01/balancer-domain", "balancer was offered %d partitions and answered %d", n, wantPart)
			return res, nil
		}
	}
	// the log holds exactly what applied requests appended (checks the harness too) and nothing in a foreign partition
	for topic, parts := range res.Logs {
		for pi, recs := range parts {
			for _, r := range recs {
				id, ok := wsim.ParseID(r.Value)
				if !ok {
					fail("c01/foreign-record", "log %s/%d holds a record that no caller submitted: %q", topic, pi, r.Value)
					return res, nil
				}
				ch := res.Choice[id]
				wantTopic, _ := ch[0].(string)
				if wantTopic == "" {
					wantTopic = c.Topics[0]
				}
				if wantTopic != topic || ch[1].(int) != pi {
					fail("c01/wrong-partition", "message %v is stored in %s/%d, the balancer chose %s/%v", id, topic, pi, wantTopic, ch[1])
					return res, nil
				}
			}
		}
	}
	// MaxAttempts is the documented limit on how many attempts are made to deliver a message: no message travels in more
	// produce requests than that
	for id, ps := range seenIn {
		if len(ps) > c.Attempts() {
			fail("c01/more-attempts-than-configured", "message %v was sent in %d produce requests (%s), MaxAttempts is %d (limit in force %d)", id, len(ps), describe(ps), c.MaxAttempts, c.Attempts())
			return res, nil
		}
	}
	// (d) duplicates only from a retry after a lost acknowledgement: once a
	// request carrying m has been acknowledged to the client, m is never sent again
	for id, ps := range seenIn {
		acked := false
		for _, p := range ps {
			if acked {
				fail("c01/resend-after-ack", "message %v was sent again (seq %d) after the broker had acknowledged it (seq %d)", id, p.Seq, ackedBy[id])
				return res, nil
			}
			if p.Acked {
				acked = true
			}
		}
		if len(appliedSeqs[id]) > 1 {
			labels = append(labels, "duplicate_after_lost_ack")
		}
	}
	stall := res.Stalls > 0
	// (b) return values
	completed := map[wsim.ID][]error{}
	for _, comp := range res.Completions {
		for _, id := range comp.IDs {
			completed[id] = append(completed[id], comp.Err)
		}
	}
	accepted := map[wsim.ID]bool{}
	for _, call := range res.Calls {
		ids := make([]wsim.ID, call.N)
		for i := range ids {
			ids[i] = wsim.ID{Caller: call.ID[0], Call: call.ID[1], Index: i}
		}
		switch {
		case call.Err == nil && !c.Async:
			for _, id := range ids {
				accepted[id] = true
				if _, ok := ackedBy[id]; !ok {
					fail("c01/nil-but-not-acked", "WriteMessages call %v returned nil but message %v was never acknowledged by the broker (requests carrying it: %s)", call.ID, id, describe(seenIn[id]))
					return res, nil
				}
			}
		case call.Err == nil && c.Async:
			for _, id := range ids {
				accepted[id] = true
			}
		case call.IsWriteEs:
			if len(call.PerMsg) != call.N {
				fail("c01/writeerrors-length", "WriteErrors has %d entries for %d messages", len(call.PerMsg), call.N)
				return res, nil
			}
			nilN, errN := 0, 0
			for i, id := range ids {
				accepted[id] = true
				_, acked := ackedBy[id]
				e := call.PerMsg[i]
				if e == nil {
					nilN++
				} else {
					errN++
				}
				if e == nil && !acked {
					fail("c01/entry-nil-but-not-acked", "WriteErrors[%d] of call %v is nil but message %v was never acknowledged (requests: %s)", i, call.ID, id, describe(seenIn[id]))
					return res, nil
				}
				if e != nil && acked {
					if stall && isTimeout(e) {
						ev.Inconclusive("ack_raced_with_client_timeout")
						continue
					}
					fail("c01/entry-error-but-acked", "WriteErrors[%d] of call %v is %v but message %v was acknowledged by request seq %d", i, call.ID, e, id, ackedBy[id])
					return res, nil
				}
			}
			if nilN > 0 && errN > 0 {
				labels = append(labels, "mixed_outcome_in_one_call")
			}
		default:
			// another error (metadata lookup, validation...): the statement makes no claim
			labels = append(labels, "call_failed_before_batching")
		}
	}
	// (c) Completion: every accepted message exactly once, outcome as acknowledged
	for id := range accepted {
		errs := completed[id]
		if len(errs) != 1 {
			fail("c01/completion-count", "Completion received accepted message %v %d times, want exactly once (requests: %s)", id, len(errs), describe(seenIn[id]))
			return res, nil
		}
		_, acked := ackedBy[id]
		if (errs[0] == nil) != acked {
			if errs[0] != nil && stall && isTimeout(errs[0]) {
				ev.Inconclusive("ack_raced_with_client_timeout")
				continue
			}
			fail("c01/completion-outcome", "Completion got err=%v for message %v but acknowledged=%v (requests: %s)", errs[0], id, acked, describe(seenIn[id]))
			return res, nil
		}
	}
	for id := range completed {
		if !accepted[id] && id.Caller != 99 {
			// a call that failed up front must not complete anything... only when no message of it was sent
			if len(seenIn[id]) == 0 {
				continue
			}
		}
	}
	if c.Async {
		labels = append(labels, "async_completion")
	}
	kinds := map[string]bool{}
	for _, p := range res.Produces {
		if p.Fault != "" && p.Fault != "ok" {
			kinds[p.Fault] = true
			labels = append(labels, "fault_"+p.Fault)
		}
		if p.Fault == "lost-ack" || p.Fault == "cut" {
			// was it retried?
			for _, id := range p.IDs {
				if len(seenIn[id]) > 1 {
					labels = append(labels, "lost_ack_retry")
					break
				}
			}
		}
		if p.Fault == "perm" {
			labels = append(labels, "permanent_error")
		}
	}
	return res, dedup(labels)
}

func dedup(s []string) []string {
	sort.Strings(s)
	out := s[:0]
	for i, x := range s {
		if i == 0 || x != s[i-1] {
			out = append(out, x)
		}
	}
	return out
}

func describe(ps []wsim.ProduceSeen) string {
	var parts []string
	for _, p := range ps {
		parts = append(parts, fmt.Sprintf("seq%d->%s/%d fault=%q outcome=%s code=%d applied=%v acked=%v", p.Seq, p.Topic, p.Partition, p.Fault, p.Outcome, p.ErrorCode, p.Applied, p.Acked))
	}
	return "[" + strings.Join(parts, "; ") + "]"
}

func summary(res *wsim.Result) string {
	var b strings.Builder
	for _, p := range res.Produces {
		fmt.Fprintf(&b, "  produce seq%d v%d %s/%d ids=%v fault=%q outcome=%s code=%d applied=%v acked=%v\n", p.Seq, p.Version, p.Topic, p.Partition, p.IDs, p.Fault, p.Outcome, p.ErrorCode, p.Applied, p.Acked)
	}
	for _, c := range res.Calls {
		fmt.Fprintf(&b, "  call %v n=%d err=%v\n", c.ID, c.N, c.Err)
	}
	for _, c := range res.Completions {
		fmt.Fprintf(&b, "  completion ids=%v err=%v\n", c.IDs, c.Err)
	}
	s := b.String()
	if len(s) > 6000 {
		s = s[:6000] + "…"
	}
	return s
}

func fingerprint(c wsim.Case, labels []string) string {
	kinds := map[string]int{}
	for _, f := range c.Faults {
		kinds[f.Kind]++
	}
	var ks []string
	for k, n := range kinds {
		ks = append(ks, fmt.Sprintf("%s%d", k, n))
	}
	sort.Strings(ks)
	return fmt.Sprintf("b%d t%v p%v v%d bs%d bb%d a%d c%d async%v %s wt%v callers%d f%v l%v", c.Brokers, len(c.Topics), c.Partitions, c.ProduceMax, c.BatchSize, c.BatchBytes, c.Acks, c.Compression, c.Async, c.Balancer, c.WriterTopic, len(c.Callers), ks, labels)
}

var caseNo int

func TestWriterFaults(t *testing.T) {
	rapid.Check(t, func(t *rapid.T) {
		caseNo++
		stratum := -1
		if caseNo%3 == 0 {
			stratum = (caseNo / 3) % 5
		}
		c := wsim.GenCase(t, wsim.BiasFaults, stratum)
		if stratum < 0 && caseNo%8 == 1 {
			// Close arrives while calls are still being made: whatever a call accepted before (nil from an Async call, nil or
			// WriteErrors from a synchronous one) keeps its outcome and its one Completion; later calls fail as a whole
			c.CloseAfterUs = rapid.SampledFrom([]int{20, 100, 300, 1000, 3000, 10000}).Draw(t, "closeAfterUs")
			if rapid.Bool().Draw(t, "closeAsync") {
				c.Async = true
			}
		}
		res, labels := check(t, c)
		if c.CloseAfterUs > 0 {
			labels = append(labels, "close_during_calls")
		}
		nontrivial := false
		shared := map[string]int{}
		for _, p := range res.Produces {
			if p.Fault != "" && p.Fault != "ok" {
				nontrivial = true
			}
			if len(p.IDs) > 0 {
				shared[fmt.Sprintf("%s/%d/%d", p.Topic, p.Partition, p.IDs[0].Caller)]++
			}
		}
		callersPerPart := map[string]map[int]bool{}
		for _, p := range res.Produces {
			k := fmt.Sprintf("%s/%d", p.Topic, p.Partition)
			if callersPerPart[k] == nil {
				callersPerPart[k] = map[int]bool{}
			}
			for _, id := range p.IDs {
				callersPerPart[k][id.Caller] = true
			}
		}
		for _, m := range callersPerPart {
			if len(m) >= 2 {
				nontrivial = true
				labels = append(labels, "callers_share_partition")
				break
			}
		}
		ev.Case(fingerprint(c, labels), nontrivial, labels...)
		ev.Sample(c)
	})
}

// TestHugeCall: one WriteMessages call with more messages than a 16-bit index can number (the Writer keeps per-message
// indexes for the call's bookkeeping); every message is judged like in any other case.
func TestHugeCall(t *testing.T) {
	for _, async := range []bool{false, true} {
		msgs := make([]wsim.Msg, 66000)
		for i := range msgs {
			msgs[i] = wsim.Msg{KeyLen: -1, ValueSize: 8}
		}
		c := wsim.Case{Brokers: 1, ProduceMax: 7, BatchSize: 6000, BatchBytes: 1 << 20, BatchTimeoutMs: 5, MaxAttempts: 2, BackoffMinMs: 1, BackoffMaxMs: 2, Acks: -1, Async: async,
			Balancer: "roundrobin", WriterTopic: true, WriteTimeoutMs: 20000, CallTimeoutMs: 60000, Topics: []string{"ta"}, Partitions: []int{3},
			Callers: [][]wsim.Call{{{Msgs: msgs}}}}
		if async {
			c.SettleMs = 3000
		}
		_, labels := check(t, c)
		ev.Case(fmt.Sprintf("huge-call async=%v", async), true, append(labels, "huge_call")...)
	}
}
