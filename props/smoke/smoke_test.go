package smoke

import (
	"context"
	"fmt"
	"testing"
	"time"

	kafka "github.com/segmentio/kafka-go"

	"verif/fakecluster"
	"verif/memnet"
)

func TestSmoke(t *testing.T) {
	nw := memnet.New()
	cl := fakecluster.New(nw, 2)
	defer cl.Close()
	cl.CreateTopic("t", 2)
	tr := &kafka.Transport{Dial: nw.Dial, MetadataTTL: 100 * time.Millisecond}
	w := &kafka.Writer{Addr: kafka.TCP("b1.fake:9092"), Topic: "t", Transport: tr, BatchTimeout: 5 * time.Millisecond, Balancer: &kafka.RoundRobin{}}
	ctx, cancel := context.WithTimeout(context.Background(), 5*time.Second)
	defer cancel()
	var msgs []kafka.Message
	for i := 0; i < 6; i++ {
		msgs = append(msgs, kafka.Message{Key: []byte(fmt.Sprint("k", i)), Value: []byte(fmt.Sprint("v", i)), Headers: []kafka.Header{{Key: "h", Value: []byte("x")}}})
	}
	if err := w.WriteMessages(ctx, msgs...); err != nil {
		t.Fatal(err)
	}
	w.Close()
	for p := int32(0); p < 2; p++ {
		t.Logf("partition %d: %d records", p, len(cl.Records("t", p)))
	}
	d := &kafka.Dialer{DialFunc: nw.Dial, Timeout: time.Second}
	conn, err := d.DialLeader(ctx, "tcp", "b1.fake:9092", "t", 0)
	if err != nil {
		t.Fatal(err)
	}
	first, last, err := conn.ReadOffsets()
	t.Logf("offsets %d %d %v", first, last, err)
	conn.SetDeadline(time.Now().Add(time.Second))
	b := conn.ReadBatch(1, 1<<20)
	for {
		m, err := b.ReadMessage()
		if err != nil {
			t.Logf("batch end: %v", err)
			break
		}
		t.Logf("conn msg off=%d key=%s val=%s", m.Offset, m.Key, m.Value)
	}
	b.Close()
	n, err := conn.WriteMessages(kafka.Message{Value: []byte("direct")})
	t.Logf("conn write %d %v", n, err)
	conn.Close()

	r := kafka.NewReader(kafka.ReaderConfig{Brokers: []string{"b1.fake:9092"}, Topic: "t", Partition: 1, Dialer: d, MinBytes: 1, MaxBytes: 1 << 20, MaxWait: 20 * time.Millisecond})
	for i := 0; i < 3; i++ {
		m, err := r.ReadMessage(ctx)
		if err != nil {
			t.Fatal(err)
		}
		t.Logf("reader msg p=%d off=%d key=%s val=%s hdr=%v", m.Partition, m.Offset, m.Key, m.Value, m.Headers)
	}
	r.Close()

	gr := kafka.NewReader(kafka.ReaderConfig{Brokers: []string{"b1.fake:9092"}, GroupID: "g", Topic: "t", Dialer: d, MinBytes: 1, MaxBytes: 1 << 20, MaxWait: 20 * time.Millisecond,
		HeartbeatInterval: 20 * time.Millisecond, SessionTimeout: 200 * time.Millisecond, RebalanceTimeout: 200 * time.Millisecond, JoinGroupBackoff: 10 * time.Millisecond, CommitInterval: 0})
	for i := 0; i < 7; i++ {
		m, err := gr.FetchMessage(ctx)
		if err != nil {
			t.Fatal(err)
		}
		if err := gr.CommitMessages(ctx, m); err != nil {
			t.Fatal(err)
		}
		t.Logf("group msg p=%d off=%d val=%s", m.Partition, m.Offset, m.Value)
	}
	gr.Close()
	t.Logf("committed: %d %d", cl.CommittedOffset("g", "t", 0), cl.CommittedOffset("g", "t", 1))
	for _, v := range cl.Violations() {
		t.Errorf("violation: %s", v)
	}
	for _, e := range cl.Journal() {
		t.Logf("%3d conn=%d b=%d %s v%d -> %s", e.Seq, e.ConnID, e.BrokerID, e.ApiName, e.Version, e.Outcome)
	}
}
