module verif

go 1.23.0

require (
	github.com/segmentio/kafka-go v0.0.0
	pgregory.net/rapid v1.3.0
)

require (
	github.com/golang/snappy v0.0.1
	github.com/klauspost/compress v1.15.9
	github.com/pierrec/lz4/v4 v4.1.15
)

replace github.com/segmentio/kafka-go => /repo
