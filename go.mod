module verif

go 1.23.0

require (
	github.com/segmentio/kafka-go v0.0.0
	pgregory.net/rapid v1.3.0
)

require (
	github.com/golang/snappy v0.0.1
	github.com/klauspost/compress v1.15.9
	github.com/pierrec/lz4/v4 v4.1.15
)

require (
	github.com/xdg-go/pbkdf2 v1.0.0 // indirect
	github.com/xdg-go/scram v1.1.2 // indirect
	github.com/xdg-go/stringprep v1.0.4 // indirect
	golang.org/x/text v0.23.0 // indirect
)

replace github.com/segmentio/kafka-go => /repo
