package refcodec

import (
	"bytes"
	"fmt"
	"reflect"
)

// RecordsHook converts between *RecordSet and the library's record-set type;
// the bridge itself knows nothing about the library.
type RecordsHook struct {
	// ToLib stores rs (nil = null) into dst, the Go field of the library struct.
	ToLib func(rs *RecordSet, dst reflect.Value, ver int16) error
	// FromLib reads the Go field back into a *RecordSet (nil = null/empty).
	FromLib func(src reflect.Value, ver int16) (*RecordSet, error)
}

// ToStruct moves a value tree into the library's Go struct by field name.
// Null strings become "", null arrays nil slices, empty arrays empty non-nil
// slices, null bytes nil.
func ToStruct(fs []Field, ver int16, val map[string]any, dst reflect.Value, h *RecordsHook) error {
	for dst.Kind() == reflect.Ptr {
		dst = dst.Elem()
	}
	for i := range fs {
		f := &fs[i]
		if !f.In(ver) {
			continue
		}
		gf := dst.FieldByName(f.N)
		if !gf.IsValid() {
			return fmt.Errorf("library struct %s has no field %s", dst.Type(), f.N)
		}
		if err := toGo(f.T, ver, val[f.N], gf, h); err != nil {
			return fmt.Errorf("%s: %w", f.N, err)
		}
	}
	return nil
}

func toGo(t *Type, ver int16, v any, dst reflect.Value, h *RecordsHook) error {
	switch t.Kind {
	case KBool:
		b, _ := v.(bool)
		dst.SetBool(b)
	case KInt8, KInt16, KInt32, KInt64:
		n, err := asInt(v)
		if err != nil {
			return err
		}
		dst.SetInt(n)
	case KFloat64:
		f, _ := v.(float64)
		dst.SetFloat(f)
	case KString:
		s, _ := v.(string)
		dst.SetString(s)
	case KBytes:
		if v == nil {
			dst.SetBytes(nil)
		} else {
			dst.SetBytes(append([]byte{}, v.([]byte)...))
		}
	case KArray:
		if v == nil {
			dst.Set(reflect.Zero(dst.Type()))
			return nil
		}
		a := v.([]any)
		s := reflect.MakeSlice(dst.Type(), len(a), len(a))
		for i, e := range a {
			if err := toGo(t.Elem, ver, e, s.Index(i), h); err != nil {
				return fmt.Errorf("[%d]: %w", i, err)
			}
		}
		dst.Set(s)
	case KStruct, KInline:
		m, _ := v.(map[string]any)
		return ToStruct(t.Fields, ver, m, dst, h)
	case KRecords:
		if h == nil || h.ToLib == nil {
			return fmt.Errorf("no records hook")
		}
		var rs *RecordSet
		if v != nil {
			rs = v.(*RecordSet)
		}
		return h.ToLib(rs, dst, ver)
	}
	return nil
}

// FromStruct reads the library's Go struct into a value tree (no nulls: Go
// cannot tell null from empty, except nil vs empty slices which are kept).
func FromStruct(fs []Field, ver int16, src reflect.Value, h *RecordsHook) (map[string]any, error) {
	for src.Kind() == reflect.Ptr {
		src = src.Elem()
	}
	out := map[string]any{}
	for i := range fs {
		f := &fs[i]
		if !f.In(ver) {
			continue
		}
		gf := src.FieldByName(f.N)
		if !gf.IsValid() {
			return nil, fmt.Errorf("library struct %s has no field %s", src.Type(), f.N)
		}
		v, err := fromGo(f.T, ver, gf, h)
		if err != nil {
			return nil, fmt.Errorf("%s: %w", f.N, err)
		}
		out[f.N] = v
	}
	return out, nil
}

func fromGo(t *Type, ver int16, src reflect.Value, h *RecordsHook) (any, error) {
	switch t.Kind {
	case KBool:
		return src.Bool(), nil
	case KInt8, KInt16, KInt32, KInt64:
		return src.Int(), nil
	case KFloat64:
		return src.Float(), nil
	case KString:
		return src.String(), nil
	case KBytes:
		if src.IsNil() {
			return nil, nil
		}
		return append([]byte{}, src.Bytes()...), nil
	case KArray:
		if src.IsNil() {
			return nil, nil
		}
		a := make([]any, src.Len())
		for i := range a {
			v, err := fromGo(t.Elem, ver, src.Index(i), h)
			if err != nil {
				return nil, err
			}
			a[i] = v
		}
		return a, nil
	case KStruct, KInline:
		return FromStruct(t.Fields, ver, src, h)
	case KRecords:
		if h == nil || h.FromLib == nil {
			return nil, fmt.Errorf("no records hook")
		}
		rs, err := h.FromLib(src, ver)
		if err != nil {
			return nil, err
		}
		if rs == nil {
			return nil, nil
		}
		return rs, nil
	}
	return nil, fmt.Errorf("kind %v", t.Kind)
}

// Diff returns "" when a and b carry the same field values at version ver, or
// a description of the first difference.  With lenient set, null and empty
// (strings, arrays, bytes, record sets) are the same, as they are for a Go
// struct that was decoded from the wire.
func Diff(fs []Field, ver int16, a, b map[string]any, lenient bool) string {
	return diffFields("", fs, ver, a, b, lenient)
}

func diffFields(path string, fs []Field, ver int16, a, b map[string]any, lenient bool) string {
	for i := range fs {
		f := &fs[i]
		if !f.In(ver) {
			continue
		}
		if d := diffValue(path+"."+f.N, f.T, ver, a[f.N], b[f.N], lenient); d != "" {
			return d
		}
	}
	return ""
}

func diffValue(path string, t *Type, ver int16, a, b any, lenient bool) string {
	mismatch := func() string { return fmt.Sprintf("%s: %s vs %s", path, show(a), show(b)) }
	switch t.Kind {
	case KBool:
		x, _ := a.(bool)
		y, _ := b.(bool)
		if x != y {
			return mismatch()
		}
	case KInt8, KInt16, KInt32, KInt64:
		x, _ := asInt(a)
		y, _ := asInt(b)
		if x != y {
			return mismatch()
		}
	case KFloat64:
		x, _ := a.(float64)
		y, _ := b.(float64)
		if x != y && !(x != x && y != y) {
			return mismatch()
		}
	case KString:
		if !lenient && (a == nil) != (b == nil) {
			return mismatch()
		}
		x, _ := a.(string)
		y, _ := b.(string)
		if x != y {
			return mismatch()
		}
	case KBytes:
		if !lenient && (a == nil) != (b == nil) {
			return mismatch()
		}
		x, _ := a.([]byte)
		y, _ := b.([]byte)
		if !bytes.Equal(x, y) {
			return mismatch()
		}
	case KArray:
		if !lenient && (a == nil) != (b == nil) {
			return mismatch()
		}
		x, _ := a.([]any)
		y, _ := b.([]any)
		if len(x) != len(y) {
			return fmt.Sprintf("%s: array length %d vs %d", path, len(x), len(y))
		}
		for i := range x {
			if d := diffValue(fmt.Sprintf("%s[%d]", path, i), t.Elem, ver, x[i], y[i], lenient); d != "" {
				return d
			}
		}
	case KStruct, KInline:
		x, _ := a.(map[string]any)
		y, _ := b.(map[string]any)
		return diffFields(path, t.Fields, ver, x, y, lenient)
	case KRecords:
		var x, y []Record
		if a != nil {
			x = a.(*RecordSet).AllRecords()
		}
		if b != nil {
			y = b.(*RecordSet).AllRecords()
		}
		if !lenient && (a == nil) != (b == nil) {
			return mismatch()
		}
		return DiffRecords(path, x, y, lenient)
	}
	return ""
}

// DiffRecords compares two record lists (offset, timestamp, key, value, headers).
func DiffRecords(path string, x, y []Record, lenient bool) string {
	if len(x) != len(y) {
		return fmt.Sprintf("%s: %d records vs %d", path, len(x), len(y))
	}
	for i := range x {
		p, q := x[i], y[i]
		at := fmt.Sprintf("%s.record[%d]", path, i)
		if p.Offset != q.Offset {
			return fmt.Sprintf("%s: offset %d vs %d", at, p.Offset, q.Offset)
		}
		if p.Timestamp != q.Timestamp {
			return fmt.Sprintf("%s: timestamp %d vs %d", at, p.Timestamp, q.Timestamp)
		}
		if !bytes.Equal(p.Key, q.Key) || (!lenient && p.KeyNull != q.KeyNull) {
			return fmt.Sprintf("%s: key %s(null=%v) vs %s(null=%v)", at, show(p.Key), p.KeyNull, show(q.Key), q.KeyNull)
		}
		if !bytes.Equal(p.Value, q.Value) || (!lenient && p.ValueNull != q.ValueNull) {
			return fmt.Sprintf("%s: value %s(null=%v) vs %s(null=%v)", at, show(p.Value), p.ValueNull, show(q.Value), q.ValueNull)
		}
		if len(p.Headers) != len(q.Headers) {
			return fmt.Sprintf("%s: %d headers vs %d", at, len(p.Headers), len(q.Headers))
		}
		for k := range p.Headers {
			if p.Headers[k].Key != q.Headers[k].Key || !bytes.Equal(p.Headers[k].Value, q.Headers[k].Value) {
				return fmt.Sprintf("%s: header %d %q=%s vs %q=%s", at, k, p.Headers[k].Key, show(p.Headers[k].Value), q.Headers[k].Key, show(q.Headers[k].Value))
			}
		}
	}
	return ""
}

func show(v any) string {
	switch x := v.(type) {
	case nil:
		return "null"
	case []byte:
		if len(x) > 24 {
			return fmt.Sprintf("%x…(%d bytes)", x[:24], len(x))
		}
		return fmt.Sprintf("%x", x)
	case string:
		if len(x) > 40 {
			return fmt.Sprintf("%q…(%d)", x[:40], len(x))
		}
		return fmt.Sprintf("%q", x)
	}
	return fmt.Sprintf("%v", v)
}
