package refcodec

// APIs is the pinned schema table.
//
// Provenance: a draft was printed once by tools/schemadump from the struct tags
// of the tree at the pinned commit, and then reviewed field by field against
// the Kafka protocol specification (message JSON definitions: field order,
// versions, nullable versions, flexible versions, tag ids).  The table below is
// data: it is not regenerated and does not follow later edits of struct tags.
// Deviations of the library from the specification found during the review are
// marked "SPEC:" -- there the table follows the specification.
//
// Nullability: request-side Null lists the versions in which the library can
// express null and the specification allows it; response-side Null follows the
// specification.
var APIs = []API{
	{Key: 0, Name: "Produce", Pkg: "produce", Min: 0, Max: 8, FlexReq: -1, FlexResp: -1,
		Req: []Field{
			{N: "TransactionalID", T: Str, V: "3-8", Null: "3-8"},
			{N: "Acks", T: I16, V: "0-8"},
			{N: "Timeout", T: I32, V: "0-8"},
			{N: "Topics", T: Arr(Struct([]Field{
				{N: "Topic", T: Str, V: "0-8"},
				{N: "Partitions", T: Arr(Struct([]Field{
					{N: "Partition", T: I32, V: "0-8"},
					{N: "RecordSet", T: Records, V: "0-8"},
				})), V: "0-8"},
			})), V: "0-8"},
		},
		Resp: []Field{
			{N: "Topics", T: Arr(Struct([]Field{
				{N: "Topic", T: Str, V: "0-8"},
				{N: "Partitions", T: Arr(Struct([]Field{
					{N: "Partition", T: I32, V: "0-8"},
					{N: "ErrorCode", T: I16, V: "0-8"},
					{N: "BaseOffset", T: I64, V: "0-8"},
					{N: "LogAppendTime", T: I64, V: "2-8"},
					{N: "LogStartOffset", T: I64, V: "5-8"},
					{N: "RecordErrors", T: Arr(Struct([]Field{
						{N: "BatchIndex", T: I32, V: "8-8"},
						{N: "BatchIndexErrorMessage", T: Str, V: "8-8", Null: "8-8"},
					})), V: "8-8"},
					{N: "ErrorMessage", T: Str, V: "8-8", Null: "8-8"},
				})), V: "0-8"},
			})), V: "0-8"},
			{N: "ThrottleTimeMs", T: I32, V: "1-8"},
		},
	},
	{Key: 1, Name: "Fetch", Pkg: "fetch", Min: 0, Max: 11, FlexReq: -1, FlexResp: -1,
		Req: []Field{
			{N: "ReplicaID", T: I32, V: "0-11"},
			{N: "MaxWaitTime", T: I32, V: "0-11"},
			{N: "MinBytes", T: I32, V: "0-11"},
			{N: "MaxBytes", T: I32, V: "3-11"},
			{N: "IsolationLevel", T: I8, V: "4-11"},
			{N: "SessionID", T: I32, V: "7-11"},
			{N: "SessionEpoch", T: I32, V: "7-11"},
			{N: "Topics", T: Arr(Struct([]Field{
				{N: "Topic", T: Str, V: "0-11"},
				{N: "Partitions", T: Arr(Struct([]Field{
					{N: "Partition", T: I32, V: "0-11"},
					{N: "CurrentLeaderEpoch", T: I32, V: "9-11"},
					{N: "FetchOffset", T: I64, V: "0-11"},
					{N: "LogStartOffset", T: I64, V: "5-11"},
					{N: "PartitionMaxBytes", T: I32, V: "0-11"},
				})), V: "0-11"},
			})), V: "0-11"},
			{N: "ForgottenTopics", T: Arr(Struct([]Field{
				{N: "Topic", T: Str, V: "7-11"},
				{N: "Partitions", T: Arr(I32), V: "7-11"},
			})), V: "7-11"},
			{N: "RackID", T: Str, V: "11-11"},
		},
		Resp: []Field{
			{N: "ThrottleTimeMs", T: I32, V: "1-11"},
			{N: "ErrorCode", T: I16, V: "7-11"},
			{N: "SessionID", T: I32, V: "7-11"},
			{N: "Topics", T: Arr(Struct([]Field{
				{N: "Topic", T: Str, V: "0-11"},
				{N: "Partitions", T: Arr(Struct([]Field{
					{N: "Partition", T: I32, V: "0-11"},
					{N: "ErrorCode", T: I16, V: "0-11"},
					{N: "HighWatermark", T: I64, V: "0-11"},
					{N: "LastStableOffset", T: I64, V: "4-11"},
					{N: "LogStartOffset", T: I64, V: "5-11"},
					{N: "AbortedTransactions", T: Arr(Struct([]Field{
						{N: "ProducerID", T: I64, V: "4-11"},
						{N: "FirstOffset", T: I64, V: "4-11"},
					})), V: "4-11", Null: "4-11"},
					{N: "PreferredReadReplica", T: I32, V: "11-11"},
					{N: "RecordSet", T: Records, V: "0-11"},
				})), V: "0-11"},
			})), V: "0-11"},
		},
	},
	{Key: 2, Name: "ListOffsets", Pkg: "listoffsets", Min: 1, Max: 5, FlexReq: -1, FlexResp: -1,
		Req: []Field{
			{N: "ReplicaID", T: I32, V: "1-5"},
			{N: "IsolationLevel", T: I8, V: "2-5"},
			{N: "Topics", T: Arr(Struct([]Field{
				{N: "Topic", T: Str, V: "1-5"},
				{N: "Partitions", T: Arr(Struct([]Field{
					{N: "Partition", T: I32, V: "1-5"},
					{N: "CurrentLeaderEpoch", T: I32, V: "4-5"},
					{N: "Timestamp", T: I64, V: "1-5"},
				})), V: "1-5"},
			})), V: "1-5"},
		},
		Resp: []Field{
			{N: "ThrottleTimeMs", T: I32, V: "2-5"},
			{N: "Topics", T: Arr(Struct([]Field{
				{N: "Topic", T: Str, V: "1-5"},
				{N: "Partitions", T: Arr(Struct([]Field{
					{N: "Partition", T: I32, V: "1-5"},
					{N: "ErrorCode", T: I16, V: "1-5"},
					{N: "Timestamp", T: I64, V: "1-5"},
					{N: "Offset", T: I64, V: "1-5"},
					{N: "LeaderEpoch", T: I32, V: "4-5"},
				})), V: "1-5"},
			})), V: "1-5"},
		},
	},
	{Key: 3, Name: "Metadata", Pkg: "metadata", Min: 0, Max: 8, FlexReq: -1, FlexResp: -1,
		Req: []Field{
			{N: "TopicNames", T: Arr(Str), V: "0-8", Null: "1-8"}, // SPEC: null only from v1 (v0: empty = all topics)
			{N: "AllowAutoTopicCreation", T: Bool, V: "4-8"},
			{N: "IncludeClusterAuthorizedOperations", T: Bool, V: "8-8"},
			{N: "IncludeTopicAuthorizedOperations", T: Bool, V: "8-8"},
		},
		Resp: []Field{
			{N: "ThrottleTimeMs", T: I32, V: "3-8"},
			{N: "Brokers", T: Arr(Struct([]Field{
				{N: "NodeID", T: I32, V: "0-8"},
				{N: "Host", T: Str, V: "0-8"},
				{N: "Port", T: I32, V: "0-8"},
				{N: "Rack", T: Str, V: "1-8", Null: "1-8"},
			})), V: "0-8"},
			{N: "ClusterID", T: Str, V: "2-8", Null: "2-8"},
			{N: "ControllerID", T: I32, V: "1-8"},
			{N: "Topics", T: Arr(Struct([]Field{
				{N: "ErrorCode", T: I16, V: "0-8"},
				{N: "Name", T: Str, V: "0-8"},
				{N: "IsInternal", T: Bool, V: "1-8"},
				{N: "Partitions", T: Arr(Struct([]Field{
					{N: "ErrorCode", T: I16, V: "0-8"},
					{N: "PartitionIndex", T: I32, V: "0-8"},
					{N: "LeaderID", T: I32, V: "0-8"},
					{N: "LeaderEpoch", T: I32, V: "7-8"},
					{N: "ReplicaNodes", T: Arr(I32), V: "0-8"},
					{N: "IsrNodes", T: Arr(I32), V: "0-8"},
					{N: "OfflineReplicas", T: Arr(I32), V: "5-8"},
				})), V: "0-8"},
				{N: "TopicAuthorizedOperations", T: I32, V: "8-8"},
			})), V: "0-8"},
			{N: "ClusterAuthorizedOperations", T: I32, V: "8-8"},
		},
	},
	{Key: 8, Name: "OffsetCommit", Pkg: "offsetcommit", Min: 0, Max: 7, FlexReq: -1, FlexResp: -1,
		Req: []Field{
			{N: "GroupID", T: Str, V: "0-7"},
			{N: "GenerationID", T: I32, V: "1-7"},
			{N: "MemberID", T: Str, V: "1-7"},
			{N: "RetentionTimeMs", T: I64, V: "2-4"},
			{N: "GroupInstanceID", T: Str, V: "7-7", Null: "7-7"},
			{N: "Topics", T: Arr(Struct([]Field{
				{N: "Name", T: Str, V: "0-7"},
				{N: "Partitions", T: Arr(Struct([]Field{
					{N: "PartitionIndex", T: I32, V: "0-7"},
					{N: "CommittedOffset", T: I64, V: "0-7"},
					{N: "CommitTimestamp", T: I64, V: "1-1"},
					{N: "CommittedLeaderEpoch", T: I32, V: "6-7"},
					{N: "CommittedMetadata", T: Str, V: "0-7", Null: "0-7"},
				})), V: "0-7"},
			})), V: "0-7"},
		},
		Resp: []Field{
			{N: "ThrottleTimeMs", T: I32, V: "3-7"},
			{N: "Topics", T: Arr(Struct([]Field{
				{N: "Name", T: Str, V: "0-7"},
				{N: "Partitions", T: Arr(Struct([]Field{
					{N: "PartitionIndex", T: I32, V: "0-7"},
					{N: "ErrorCode", T: I16, V: "0-7"},
				})), V: "0-7"},
			})), V: "0-7"},
		},
	},
	{Key: 9, Name: "OffsetFetch", Pkg: "offsetfetch", Min: 0, Max: 5, FlexReq: -1, FlexResp: -1,
		Req: []Field{
			{N: "GroupID", T: Str, V: "0-5"},
			{N: "Topics", T: Arr(Struct([]Field{
				{N: "Name", T: Str, V: "0-5"},
				{N: "PartitionIndexes", T: Arr(I32), V: "0-5"},
			})), V: "0-5", Null: "2-5"}, // SPEC: null (= all topics) only from v2
		},
		Resp: []Field{
			{N: "ThrottleTimeMs", T: I32, V: "3-5"},
			{N: "Topics", T: Arr(Struct([]Field{
				{N: "Name", T: Str, V: "0-5"},
				{N: "Partitions", T: Arr(Struct([]Field{
					{N: "PartitionIndex", T: I32, V: "0-5"},
					{N: "CommittedOffset", T: I64, V: "0-5"},
					{N: "ComittedLeaderEpoch", T: I32, V: "5-5"},
					{N: "Metadata", T: Str, V: "0-5", Null: "0-5"},
					{N: "ErrorCode", T: I16, V: "0-5"},
				})), V: "0-5"},
			})), V: "0-5"},
			{N: "ErrorCode", T: I16, V: "2-5"},
		},
	},
	{Key: 10, Name: "FindCoordinator", Pkg: "findcoordinator", Min: 0, Max: 2, FlexReq: -1, FlexResp: -1,
		Req: []Field{
			{N: "Key", T: Str, V: "0-2"},
			{N: "KeyType", T: I8, V: "1-2"},
		},
		Resp: []Field{
			{N: "ThrottleTimeMs", T: I32, V: "1-2"},
			{N: "ErrorCode", T: I16, V: "0-2"},
			{N: "ErrorMessage", T: Str, V: "1-2", Null: "1-2"},
			{N: "NodeID", T: I32, V: "0-2"},
			{N: "Host", T: Str, V: "0-2"},
			{N: "Port", T: I32, V: "0-2"},
		},
	},
	{Key: 11, Name: "JoinGroup", Pkg: "joingroup", Min: 0, Max: 7, FlexReq: 6, FlexResp: 6,
		Req: []Field{
			{N: "GroupID", T: Str, V: "0-7"},
			{N: "SessionTimeoutMS", T: I32, V: "0-7"},
			{N: "RebalanceTimeoutMS", T: I32, V: "1-7"},
			{N: "MemberID", T: Str, V: "0-7"},
			{N: "GroupInstanceID", T: Str, V: "5-7", Null: "5-7"},
			{N: "ProtocolType", T: Str, V: "0-7"},
			{N: "Protocols", T: Arr(Struct([]Field{
				{N: "Name", T: Str, V: "0-7"},
				{N: "Metadata", T: Bytes, V: "0-7"},
			})), V: "0-7"},
		},
		Resp: []Field{
			{N: "ThrottleTimeMS", T: I32, V: "2-7"},
			{N: "ErrorCode", T: I16, V: "0-7"},
			{N: "GenerationID", T: I32, V: "0-7"},
			{N: "ProtocolType", T: Str, V: "7-7", Null: "7-7"},
			{N: "ProtocolName", T: Str, V: "0-7", Null: "7-7"},
			{N: "LeaderID", T: Str, V: "0-7"},
			{N: "MemberID", T: Str, V: "0-7"},
			{N: "Members", T: Arr(Struct([]Field{
				{N: "MemberID", T: Str, V: "0-7"},
				{N: "GroupInstanceID", T: Str, V: "5-7", Null: "5-7"},
				{N: "Metadata", T: Bytes, V: "0-7"},
			})), V: "0-7"},
		},
	},
	{Key: 12, Name: "Heartbeat", Pkg: "heartbeat", Min: 0, Max: 4, FlexReq: 4, FlexResp: 4,
		Req: []Field{
			{N: "GroupID", T: Str, V: "0-4"},
			{N: "GenerationID", T: I32, V: "0-4"},
			{N: "MemberID", T: Str, V: "0-4"},
			{N: "GroupInstanceID", T: Str, V: "3-4", Null: "3-4"},
		},
		Resp: []Field{
			{N: "ThrottleTimeMs", T: I32, V: "1-4"}, // SPEC: throttle_time_ms precedes error_code (library had them swapped: finding F7)
			{N: "ErrorCode", T: I16, V: "0-4"},
		},
	},
	{Key: 13, Name: "LeaveGroup", Pkg: "leavegroup", Min: 0, Max: 4, FlexReq: 4, FlexResp: 4,
		Req: []Field{
			{N: "GroupID", T: Str, V: "0-4"},
			{N: "MemberID", T: Str, V: "0-2"},
			{N: "Members", T: Arr(Struct([]Field{
				{N: "MemberID", T: Str, V: "3-4"},
				{N: "GroupInstanceID", T: Str, V: "3-4", Null: "3-4"},
			})), V: "3-4"},
		},
		Resp: []Field{
			{N: "ThrottleTimeMS", T: I32, V: "1-4"}, // SPEC: throttle_time_ms precedes error_code (library had them swapped: finding F7)
			{N: "ErrorCode", T: I16, V: "0-4"},
			{N: "Members", T: Arr(Struct([]Field{
				{N: "MemberID", T: Str, V: "3-4"},
				{N: "GroupInstanceID", T: Str, V: "3-4", Null: "3-4"},
				{N: "ErrorCode", T: I16, V: "3-4"},
			})), V: "3-4"},
		},
	},
	{Key: 14, Name: "SyncGroup", Pkg: "syncgroup", Min: 0, Max: 5, FlexReq: 4, FlexResp: 4,
		Req: []Field{
			{N: "GroupID", T: Str, V: "0-5"},
			{N: "GenerationID", T: I32, V: "0-5"},
			{N: "MemberID", T: Str, V: "0-5"},
			{N: "GroupInstanceID", T: Str, V: "3-5", Null: "3-5"},
			{N: "ProtocolType", T: Str, V: "5-5"},
			{N: "ProtocolName", T: Str, V: "5-5"},
			{N: "Assignments", T: Arr(Struct([]Field{
				{N: "MemberID", T: Str, V: "0-5"},
				{N: "Assignment", T: Bytes, V: "0-5"},
			})), V: "0-5"},
		},
		Resp: []Field{
			{N: "ThrottleTimeMS", T: I32, V: "1-5"},
			{N: "ErrorCode", T: I16, V: "0-5"},
			{N: "ProtocolType", T: Str, V: "5-5", Null: "5-5"},
			{N: "ProtocolName", T: Str, V: "5-5", Null: "5-5"},
			{N: "Assignments", T: Bytes, V: "0-5"},
		},
	},
	{Key: 15, Name: "DescribeGroups", Pkg: "describegroups", Min: 0, Max: 5, FlexReq: 5, FlexResp: 5,
		Req: []Field{
			{N: "Groups", T: Arr(Str), V: "0-5"},
			{N: "IncludeAuthorizedOperations", T: Bool, V: "3-5"},
		},
		Resp: []Field{
			{N: "ThrottleTimeMs", T: I32, V: "1-5"},
			{N: "Groups", T: Arr(Struct([]Field{
				{N: "ErrorCode", T: I16, V: "0-5"},
				{N: "GroupID", T: Str, V: "0-5"},
				{N: "GroupState", T: Str, V: "0-5"},
				{N: "ProtocolType", T: Str, V: "0-5"},
				{N: "ProtocolData", T: Str, V: "0-5"},
				{N: "Members", T: Arr(Struct([]Field{
					{N: "MemberID", T: Str, V: "0-5"},
					{N: "GroupInstanceID", T: Str, V: "4-5", Null: "4-5"},
					{N: "ClientID", T: Str, V: "0-5"},
					{N: "ClientHost", T: Str, V: "0-5"},
					{N: "MemberMetadata", T: Bytes, V: "0-5"},
					{N: "MemberAssignment", T: Bytes, V: "0-5"},
				})), V: "0-5"},
				{N: "AuthorizedOperations", T: I32, V: "3-5"},
			})), V: "0-5"},
		},
	},
	{Key: 16, Name: "ListGroups", Pkg: "listgroups", Min: 0, Max: 2, FlexReq: -1, FlexResp: -1,
		Req: []Field{},
		Resp: []Field{
			{N: "ThrottleTimeMs", T: I32, V: "1-2"},
			{N: "ErrorCode", T: I16, V: "0-2"},
			{N: "Groups", T: Arr(Struct([]Field{
				{N: "GroupID", T: Str, V: "0-2"},
				{N: "ProtocolType", T: Str, V: "0-2"},
			})), V: "0-2"},
		},
	},
	{Key: 17, Name: "SaslHandshake", Pkg: "saslhandshake", Min: 0, Max: 1, FlexReq: -1, FlexResp: -1,
		Req: []Field{
			{N: "Mechanism", T: Str, V: "0-1"},
		},
		Resp: []Field{
			{N: "ErrorCode", T: I16, V: "0-1"},
			{N: "Mechanisms", T: Arr(Str), V: "0-1"},
		},
	},
	{Key: 18, Name: "ApiVersions", Pkg: "apiversions", Min: 0, Max: 2, FlexReq: -1, FlexResp: -1,
		Req: []Field{},
		Resp: []Field{
			{N: "ErrorCode", T: I16, V: "0-2"},
			{N: "ApiKeys", T: Arr(Struct([]Field{
				{N: "ApiKey", T: I16, V: "0-2"},
				{N: "MinVersion", T: I16, V: "0-2"},
				{N: "MaxVersion", T: I16, V: "0-2"},
			})), V: "0-2"},
			{N: "ThrottleTimeMs", T: I32, V: "1-2"},
		},
	},
	{Key: 19, Name: "CreateTopics", Pkg: "createtopics", Min: 0, Max: 5, FlexReq: 5, FlexResp: 5,
		Req: []Field{
			{N: "Topics", T: Arr(Struct([]Field{
				{N: "Name", T: Str, V: "0-5"},
				{N: "NumPartitions", T: I32, V: "0-5"},
				{N: "ReplicationFactor", T: I16, V: "0-5"},
				{N: "Assignments", T: Arr(Struct([]Field{
					{N: "PartitionIndex", T: I32, V: "0-5"},
					{N: "BrokerIDs", T: Arr(I32), V: "0-5"},
				})), V: "0-5"},
				{N: "Configs", T: Arr(Struct([]Field{
					{N: "Name", T: Str, V: "0-5"},
					{N: "Value", T: Str, V: "0-5", Null: "0-5"},
				})), V: "0-5"},
			})), V: "0-5"},
			{N: "TimeoutMs", T: I32, V: "0-5"},
			{N: "ValidateOnly", T: Bool, V: "1-5"},
		},
		Resp: []Field{
			{N: "ThrottleTimeMs", T: I32, V: "2-5"},
			{N: "Topics", T: Arr(Struct([]Field{
				{N: "Name", T: Str, V: "0-5"},
				{N: "ErrorCode", T: I16, V: "0-5"},
				{N: "ErrorMessage", T: Str, V: "1-5", Null: "1-5"},
				{N: "NumPartitions", T: I32, V: "5-5"},
				{N: "ReplicationFactor", T: I16, V: "5-5"},
				{N: "Configs", T: Arr(Struct([]Field{
					{N: "Name", T: Str, V: "5-5"},
					{N: "Value", T: Str, V: "5-5", Null: "5-5"},
					{N: "ReadOnly", T: Bool, V: "5-5"},
					{N: "ConfigSource", T: I8, V: "5-5"},
					{N: "IsSensitive", T: Bool, V: "5-5"},
				})), V: "5-5", Null: "5-5"},
			})), V: "0-5"},
		},
	},
	{Key: 20, Name: "DeleteTopics", Pkg: "deletetopics", Min: 0, Max: 3, FlexReq: -1, FlexResp: -1,
		Req: []Field{
			{N: "TopicNames", T: Arr(Str), V: "0-3"},
			{N: "TimeoutMs", T: I32, V: "0-3"},
		},
		Resp: []Field{
			{N: "ThrottleTimeMs", T: I32, V: "1-3"},
			{N: "Responses", T: Arr(Struct([]Field{
				{N: "Name", T: Str, V: "0-3"},
				{N: "ErrorCode", T: I16, V: "0-3"},
			})), V: "0-3"},
		},
	},
	{Key: 22, Name: "InitProducerId", Pkg: "initproducerid", Min: 0, Max: 4, FlexReq: 2, FlexResp: 2,
		Req: []Field{
			{N: "TransactionalID", T: Str, V: "0-4", Null: "0-4"},
			{N: "TransactionTimeoutMs", T: I32, V: "0-4"},
			{N: "ProducerID", T: I64, V: "3-4"},
			{N: "ProducerEpoch", T: I16, V: "3-4"},
		},
		Resp: []Field{
			{N: "ThrottleTimeMs", T: I32, V: "0-4"},
			{N: "ErrorCode", T: I16, V: "0-4"},
			{N: "ProducerID", T: I64, V: "0-4"},
			{N: "ProducerEpoch", T: I16, V: "0-4"},
		},
	},
	{Key: 24, Name: "AddPartitionsToTxn", Pkg: "addpartitionstotxn", Min: 0, Max: 3, FlexReq: 3, FlexResp: 3,
		Req: []Field{
			{N: "TransactionalID", T: Str, V: "0-3"},
			{N: "ProducerID", T: I64, V: "0-3"},
			{N: "ProducerEpoch", T: I16, V: "0-3"},
			{N: "Topics", T: Arr(Struct([]Field{
				{N: "Name", T: Str, V: "0-3"},
				{N: "Partitions", T: Arr(I32), V: "0-3"},
			})), V: "0-3"},
		},
		Resp: []Field{
			{N: "ThrottleTimeMs", T: I32, V: "0-3"},
			{N: "Results", T: Arr(Struct([]Field{
				{N: "Name", T: Str, V: "0-3"},
				{N: "Results", T: Arr(Struct([]Field{
					{N: "PartitionIndex", T: I32, V: "0-3"},
					{N: "ErrorCode", T: I16, V: "0-3"},
				})), V: "0-3"},
			})), V: "0-3"},
		},
	},
	{Key: 25, Name: "AddOffsetsToTxn", Pkg: "addoffsetstotxn", Min: 0, Max: 3, FlexReq: 3, FlexResp: 3,
		Req: []Field{
			{N: "TransactionalID", T: Str, V: "0-3"},
			{N: "ProducerID", T: I64, V: "0-3"},
			{N: "ProducerEpoch", T: I16, V: "0-3"},
			{N: "GroupID", T: Str, V: "0-3"},
		},
		Resp: []Field{
			{N: "ThrottleTimeMs", T: I32, V: "0-3"},
			{N: "ErrorCode", T: I16, V: "0-3"},
		},
	},
	{Key: 26, Name: "EndTxn", Pkg: "endtxn", Min: 0, Max: 3, FlexReq: 3, FlexResp: 3,
		Req: []Field{
			{N: "TransactionalID", T: Str, V: "0-3"},
			{N: "ProducerID", T: I64, V: "0-3"},
			{N: "ProducerEpoch", T: I16, V: "0-3"},
			{N: "Committed", T: Bool, V: "0-3"},
		},
		Resp: []Field{
			{N: "ThrottleTimeMs", T: I32, V: "0-3"},
			{N: "ErrorCode", T: I16, V: "0-3"},
		},
	},
	{Key: 28, Name: "TxnOffsetCommit", Pkg: "txnoffsetcommit", Min: 0, Max: 3, FlexReq: 3, FlexResp: 3,
		Req: []Field{
			{N: "TransactionalID", T: Str, V: "0-3"},
			{N: "GroupID", T: Str, V: "0-3"},
			{N: "ProducerID", T: I64, V: "0-3"},
			{N: "ProducerEpoch", T: I16, V: "0-3"},
			{N: "GenerationID", T: I32, V: "3-3"},
			{N: "MemberID", T: Str, V: "3-3"},
			{N: "GroupInstanceID", T: Str, V: "3-3", Null: "3-3"},
			{N: "Topics", T: Arr(Struct([]Field{
				{N: "Name", T: Str, V: "0-3"},
				{N: "Partitions", T: Arr(Struct([]Field{
					{N: "Partition", T: I32, V: "0-3"},
					{N: "CommittedOffset", T: I64, V: "0-3"},
					{N: "CommittedLeaderEpoch", T: I32, V: "2-3"},
					{N: "CommittedMetadata", T: Str, V: "0-3", Null: "3-3"},
				})), V: "0-3"},
			})), V: "0-3"},
		},
		Resp: []Field{
			{N: "ThrottleTimeMs", T: I32, V: "0-3"},
			{N: "Topics", T: Arr(Struct([]Field{
				{N: "Name", T: Str, V: "0-3"},
				{N: "Partitions", T: Arr(Struct([]Field{
					{N: "Partition", T: I32, V: "0-3"},
					{N: "ErrorCode", T: I16, V: "0-3"},
				})), V: "0-3"},
			})), V: "0-3"},
		},
	},
	{Key: 29, Name: "DescribeAcls", Pkg: "describeacls", Min: 0, Max: 3, FlexReq: 2, FlexResp: 2,
		Req: []Field{
			{N: "Filter", T: Inline([]Field{ // SPEC: these fields are top-level fields of the request (no nested struct, no own tag buffer)
				{N: "ResourceTypeFilter", T: I8, V: "0-3"},
				{N: "ResourceNameFilter", T: Str, V: "0-3", Null: "0-3"},
				{N: "ResourcePatternTypeFilter", T: I8, V: "1-3"},
				{N: "PrincipalFilter", T: Str, V: "0-3", Null: "0-3"},
				{N: "HostFilter", T: Str, V: "0-3", Null: "0-3"},
				{N: "Operation", T: I8, V: "0-3"},
				{N: "PermissionType", T: I8, V: "0-3"},
			}), V: "0-3"},
		},
		Resp: []Field{
			{N: "ThrottleTimeMs", T: I32, V: "0-3"},
			{N: "ErrorCode", T: I16, V: "0-3"},
			{N: "ErrorMessage", T: Str, V: "0-3", Null: "0-3"},
			{N: "Resources", T: Arr(Struct([]Field{
				{N: "ResourceType", T: I8, V: "0-3"},
				{N: "ResourceName", T: Str, V: "0-3"},
				{N: "PatternType", T: I8, V: "1-3"},
				{N: "ACLs", T: Arr(Struct([]Field{
					{N: "Principal", T: Str, V: "0-3"},
					{N: "Host", T: Str, V: "0-3"},
					{N: "Operation", T: I8, V: "0-3"},
					{N: "PermissionType", T: I8, V: "0-3"},
				})), V: "0-3"},
			})), V: "0-3"},
		},
	},
	{Key: 30, Name: "CreateAcls", Pkg: "createacls", Min: 0, Max: 3, FlexReq: 2, FlexResp: 2,
		Req: []Field{
			{N: "Creations", T: Arr(Struct([]Field{
				{N: "ResourceType", T: I8, V: "0-3"},
				{N: "ResourceName", T: Str, V: "0-3"},
				{N: "ResourcePatternType", T: I8, V: "1-3"},
				{N: "Principal", T: Str, V: "0-3"},
				{N: "Host", T: Str, V: "0-3"},
				{N: "Operation", T: I8, V: "0-3"},
				{N: "PermissionType", T: I8, V: "0-3"},
			})), V: "0-3"},
		},
		Resp: []Field{
			{N: "ThrottleTimeMs", T: I32, V: "0-3"},
			{N: "Results", T: Arr(Struct([]Field{
				{N: "ErrorCode", T: I16, V: "0-3"},
				{N: "ErrorMessage", T: Str, V: "0-3", Null: "0-3"},
			})), V: "0-3"},
		},
	},
	{Key: 31, Name: "DeleteAcls", Pkg: "deleteacls", Min: 0, Max: 3, FlexReq: 2, FlexResp: 2,
		Req: []Field{
			{N: "Filters", T: Arr(Struct([]Field{
				{N: "ResourceTypeFilter", T: I8, V: "0-3"},
				{N: "ResourceNameFilter", T: Str, V: "0-3", Null: "0-3"},
				{N: "ResourcePatternTypeFilter", T: I8, V: "1-3"},
				{N: "PrincipalFilter", T: Str, V: "0-3", Null: "0-3"},
				{N: "HostFilter", T: Str, V: "0-3", Null: "0-3"},
				{N: "Operation", T: I8, V: "0-3"},
				{N: "PermissionType", T: I8, V: "0-3"},
			})), V: "0-3"},
		},
		Resp: []Field{
			{N: "ThrottleTimeMs", T: I32, V: "0-3"},
			{N: "FilterResults", T: Arr(Struct([]Field{
				{N: "ErrorCode", T: I16, V: "0-3"},
				{N: "ErrorMessage", T: Str, V: "0-3", Null: "0-3"},
				{N: "MatchingACLs", T: Arr(Struct([]Field{
					{N: "ErrorCode", T: I16, V: "0-3"},
					{N: "ErrorMessage", T: Str, V: "0-3", Null: "0-3"},
					{N: "ResourceType", T: I8, V: "0-3"},
					{N: "ResourceName", T: Str, V: "0-3"},
					{N: "ResourcePatternType", T: I8, V: "1-3"},
					{N: "Principal", T: Str, V: "0-3"},
					{N: "Host", T: Str, V: "0-3"},
					{N: "Operation", T: I8, V: "0-3"},
					{N: "PermissionType", T: I8, V: "0-3"},
				})), V: "0-3"},
			})), V: "0-3"},
		},
	},
	{Key: 32, Name: "DescribeConfigs", Pkg: "describeconfigs", Min: 0, Max: 3, FlexReq: -1, FlexResp: -1,
		Req: []Field{
			{N: "Resources", T: Arr(Struct([]Field{
				{N: "ResourceType", T: I8, V: "0-3"},
				{N: "ResourceName", T: Str, V: "0-3"},
				{N: "ConfigNames", T: Arr(Str), V: "0-3", Null: "0-3"},
			})), V: "0-3"},
			{N: "IncludeSynonyms", T: Bool, V: "1-3"},
			{N: "IncludeDocumentation", T: Bool, V: "3-3"},
		},
		Resp: []Field{
			{N: "ThrottleTimeMs", T: I32, V: "0-3"},
			{N: "Resources", T: Arr(Struct([]Field{
				{N: "ErrorCode", T: I16, V: "0-3"},
				{N: "ErrorMessage", T: Str, V: "0-3", Null: "0-3"},
				{N: "ResourceType", T: I8, V: "0-3"},
				{N: "ResourceName", T: Str, V: "0-3"},
				{N: "ConfigEntries", T: Arr(Struct([]Field{
					{N: "ConfigName", T: Str, V: "0-3"},
					{N: "ConfigValue", T: Str, V: "0-3", Null: "0-3"},
					{N: "ReadOnly", T: Bool, V: "0-3"},
					{N: "IsDefault", T: Bool, V: "0-0"},
					{N: "ConfigSource", T: I8, V: "1-3"},
					{N: "IsSensitive", T: Bool, V: "0-3"},
					{N: "ConfigSynonyms", T: Arr(Struct([]Field{
						{N: "ConfigName", T: Str, V: "1-3"},
						{N: "ConfigValue", T: Str, V: "1-3", Null: "1-3"},
						{N: "ConfigSource", T: I8, V: "1-3"},
					})), V: "1-3"},
					{N: "ConfigType", T: I8, V: "3-3"},
					{N: "ConfigDocumentation", T: Str, V: "3-3", Null: "3-3"},
				})), V: "0-3"},
			})), V: "0-3"},
		},
	},
	{Key: 33, Name: "AlterConfigs", Pkg: "alterconfigs", Min: 0, Max: 1, FlexReq: -1, FlexResp: -1,
		Req: []Field{
			{N: "Resources", T: Arr(Struct([]Field{
				{N: "ResourceType", T: I8, V: "0-1"},
				{N: "ResourceName", T: Str, V: "0-1"},
				{N: "Configs", T: Arr(Struct([]Field{
					{N: "Name", T: Str, V: "0-1"},
					{N: "Value", T: Str, V: "0-1", Null: "0-1"},
				})), V: "0-1"},
			})), V: "0-1"},
			{N: "ValidateOnly", T: Bool, V: "0-1"},
		},
		Resp: []Field{
			{N: "ThrottleTimeMs", T: I32, V: "0-1"},
			{N: "Responses", T: Arr(Struct([]Field{
				{N: "ErrorCode", T: I16, V: "0-1"},
				{N: "ErrorMessage", T: Str, V: "0-1", Null: "0-1"},
				{N: "ResourceType", T: I8, V: "0-1"},
				{N: "ResourceName", T: Str, V: "0-1"},
			})), V: "0-1"},
		},
	},
	{Key: 36, Name: "SaslAuthenticate", Pkg: "saslauthenticate", Min: 0, Max: 1, FlexReq: -1, FlexResp: -1,
		Req: []Field{
			{N: "AuthBytes", T: Bytes, V: "0-1"},
		},
		Resp: []Field{
			{N: "ErrorCode", T: I16, V: "0-1"},
			{N: "ErrorMessage", T: Str, V: "0-1", Null: "0-1"},
			{N: "AuthBytes", T: Bytes, V: "0-1"},
			{N: "SessionLifetimeMs", T: I64, V: "1-1"},
		},
	},
	{Key: 37, Name: "CreatePartitions", Pkg: "createpartitions", Min: 0, Max: 1, FlexReq: -1, FlexResp: -1,
		Req: []Field{
			{N: "Topics", T: Arr(Struct([]Field{
				{N: "Name", T: Str, V: "0-1"},
				{N: "Count", T: I32, V: "0-1"},
				{N: "Assignments", T: Arr(Struct([]Field{
					{N: "BrokerIDs", T: Arr(I32), V: "0-1"},
				})), V: "0-1", Null: "0-1"},
			})), V: "0-1"},
			{N: "TimeoutMs", T: I32, V: "0-1"},
			{N: "ValidateOnly", T: Bool, V: "0-1"},
		},
		Resp: []Field{
			{N: "ThrottleTimeMs", T: I32, V: "0-1"},
			{N: "Results", T: Arr(Struct([]Field{
				{N: "Name", T: Str, V: "0-1"},
				{N: "ErrorCode", T: I16, V: "0-1"},
				{N: "ErrorMessage", T: Str, V: "0-1", Null: "0-1"},
			})), V: "0-1"},
		},
	},
	{Key: 42, Name: "DeleteGroups", Pkg: "deletegroups", Min: 0, Max: 2, FlexReq: 2, FlexResp: 2,
		Req: []Field{
			{N: "GroupIDs", T: Arr(Str), V: "0-2"},
		},
		Resp: []Field{
			{N: "ThrottleTimeMs", T: I32, V: "0-2"},
			{N: "Responses", T: Arr(Struct([]Field{
				{N: "GroupID", T: Str, V: "0-2"},
				{N: "ErrorCode", T: I16, V: "0-2"},
			})), V: "0-2"},
		},
	},
	{Key: 43, Name: "ElectLeaders", Pkg: "electleaders", Min: 0, Max: 1, FlexReq: -1, FlexResp: -1,
		Req: []Field{
			{N: "ElectionType", T: I8, V: "1-1"},
			{N: "TopicPartitions", T: Arr(Struct([]Field{
				{N: "Topic", T: Str, V: "0-1"},
				{N: "PartitionIDs", T: Arr(I32), V: "0-1"},
			})), V: "0-1"},
			{N: "TimeoutMs", T: I32, V: "0-1"},
		},
		Resp: []Field{
			{N: "ThrottleTime", T: I32, V: "0-1"},
			{N: "ErrorCode", T: I16, V: "1-1"},
			{N: "ReplicaElectionResults", T: Arr(Struct([]Field{
				{N: "Topic", T: Str, V: "0-1"},
				{N: "PartitionResults", T: Arr(Struct([]Field{
					{N: "PartitionID", T: I32, V: "0-1"},
					{N: "ErrorCode", T: I16, V: "0-1"},
					{N: "ErrorMessage", T: Str, V: "0-1", Null: "0-1"},
				})), V: "0-1"},
			})), V: "0-1"},
		},
	},
	{Key: 44, Name: "IncrementalAlterConfigs", Pkg: "incrementalalterconfigs", Min: 0, Max: 0, FlexReq: -1, FlexResp: -1,
		Req: []Field{
			{N: "Resources", T: Arr(Struct([]Field{
				{N: "ResourceType", T: I8, V: "0-0"},
				{N: "ResourceName", T: Str, V: "0-0"},
				{N: "Configs", T: Arr(Struct([]Field{
					{N: "Name", T: Str, V: "0-0"},
					{N: "ConfigOperation", T: I8, V: "0-0"},
					{N: "Value", T: Str, V: "0-0", Null: "0-0"},
				})), V: "0-0"},
			})), V: "0-0"},
			{N: "ValidateOnly", T: Bool, V: "0-0"},
		},
		Resp: []Field{
			{N: "ThrottleTimeMs", T: I32, V: "0-0"},
			{N: "Responses", T: Arr(Struct([]Field{
				{N: "ErrorCode", T: I16, V: "0-0"},
				{N: "ErrorMessage", T: Str, V: "0-0", Null: "0-0"},
				{N: "ResourceType", T: I8, V: "0-0"},
				{N: "ResourceName", T: Str, V: "0-0"},
			})), V: "0-0"},
		},
	},
	{Key: 45, Name: "AlterPartitionReassignments", Pkg: "alterpartitionreassignments", Min: 0, Max: 0, FlexReq: 0, FlexResp: 0,
		Req: []Field{
			{N: "TimeoutMs", T: I32, V: "0-0"},
			{N: "Topics", T: Arr(Struct([]Field{
				{N: "Name", T: Str, V: "0-0"},
				{N: "Partitions", T: Arr(Struct([]Field{
					{N: "PartitionIndex", T: I32, V: "0-0"},
					{N: "Replicas", T: Arr(I32), V: "0-0", Null: "0-0"},
				})), V: "0-0"},
			})), V: "0-0"},
		},
		Resp: []Field{
			{N: "ThrottleTimeMs", T: I32, V: "0-0"},
			{N: "ErrorCode", T: I16, V: "0-0"},
			{N: "ErrorMessage", T: Str, V: "0-0", Null: "0-0"},
			{N: "Results", T: Arr(Struct([]Field{
				{N: "Name", T: Str, V: "0-0"},
				{N: "Partitions", T: Arr(Struct([]Field{
					{N: "PartitionIndex", T: I32, V: "0-0"},
					{N: "ErrorCode", T: I16, V: "0-0"},
					{N: "ErrorMessage", T: Str, V: "0-0", Null: "0-0"},
				})), V: "0-0"},
			})), V: "0-0"},
		},
	},
	{Key: 46, Name: "ListPartitionReassignments", Pkg: "listpartitionreassignments", Min: 0, Max: 0, FlexReq: 0, FlexResp: 0,
		Req: []Field{
			{N: "TimeoutMs", T: I32, V: "0-0"},
			{N: "Topics", T: Arr(Struct([]Field{
				{N: "Name", T: Str, V: "0-0"},
				{N: "PartitionIndexes", T: Arr(I32), V: "0-0"},
			})), V: "0-0", Null: "0-0"},
		},
		Resp: []Field{
			{N: "ThrottleTimeMs", T: I32, V: "0-0"},
			{N: "ErrorCode", T: I16, V: "0-0"},
			{N: "ErrorMessage", T: Str, V: "0-0", Null: "0-0"},
			{N: "Topics", T: Arr(Struct([]Field{
				{N: "Name", T: Str, V: "0-0"},
				{N: "Partitions", T: Arr(Struct([]Field{
					{N: "PartitionIndex", T: I32, V: "0-0"},
					{N: "Replicas", T: Arr(I32), V: "0-0"},
					{N: "AddingReplicas", T: Arr(I32), V: "0-0"},
					{N: "RemovingReplicas", T: Arr(I32), V: "0-0"},
				})), V: "0-0"},
			})), V: "0-0"},
		},
	},
	{Key: 47, Name: "OffsetDelete", Pkg: "offsetdelete", Min: 0, Max: 0, FlexReq: -1, FlexResp: -1,
		Req: []Field{
			{N: "GroupID", T: Str, V: "0-0"},
			{N: "Topics", T: Arr(Struct([]Field{
				{N: "Name", T: Str, V: "0-0"},
				{N: "Partitions", T: Arr(Struct([]Field{
					{N: "PartitionIndex", T: I32, V: "0-0"},
				})), V: "0-0"},
			})), V: "0-0"},
		},
		Resp: []Field{
			{N: "ErrorCode", T: I16, V: "0-0"},
			{N: "ThrottleTimeMs", T: I32, V: "0-0"},
			{N: "Topics", T: Arr(Struct([]Field{
				{N: "Name", T: Str, V: "0-0"},
				{N: "Partitions", T: Arr(Struct([]Field{
					{N: "PartitionIndex", T: I32, V: "0-0"},
					{N: "ErrorCode", T: I16, V: "0-0"},
				})), V: "0-0"},
			})), V: "0-0"},
		},
	},
	{Key: 48, Name: "DescribeClientQuotas", Pkg: "describeclientquotas", Min: 0, Max: 1, FlexReq: 1, FlexResp: 1,
		Req: []Field{
			{N: "Components", T: Arr(Struct([]Field{
				{N: "EntityType", T: Str, V: "0-1"},
				{N: "MatchType", T: I8, V: "0-1"},
				{N: "Match", T: Str, V: "0-1", Null: "0-1"},
			})), V: "0-1"},
			{N: "Strict", T: Bool, V: "0-1"},
		},
		Resp: []Field{
			{N: "ThrottleTimeMs", T: I32, V: "0-1"},
			{N: "ErrorCode", T: I16, V: "0-1"},
			{N: "ErrorMessage", T: Str, V: "0-1", Null: "0-1"},
			{N: "Entries", T: Arr(Struct([]Field{
				{N: "Entities", T: Arr(Struct([]Field{
					{N: "EntityType", T: Str, V: "0-1"},
					{N: "EntityName", T: Str, V: "0-1", Null: "0-1"},
				})), V: "0-1"},
				{N: "Values", T: Arr(Struct([]Field{
					{N: "Key", T: Str, V: "0-1"},
					{N: "Value", T: F64, V: "0-1"},
				})), V: "0-1"},
			})), V: "0-1"},
		},
	},
	{Key: 49, Name: "AlterClientQuotas", Pkg: "alterclientquotas", Min: 0, Max: 1, FlexReq: 1, FlexResp: 1,
		Req: []Field{
			{N: "Entries", T: Arr(Struct([]Field{
				{N: "Entities", T: Arr(Struct([]Field{
					{N: "EntityType", T: Str, V: "0-1"},
					{N: "EntityName", T: Str, V: "0-1", Null: "0-1"},
				})), V: "0-1"},
				{N: "Ops", T: Arr(Struct([]Field{
					{N: "Key", T: Str, V: "0-1"},
					{N: "Value", T: F64, V: "0-1"},
					{N: "Remove", T: Bool, V: "0-1"},
				})), V: "0-1"},
			})), V: "0-1"},
			{N: "ValidateOnly", T: Bool, V: "0-1"},
		},
		Resp: []Field{
			{N: "ThrottleTimeMs", T: I32, V: "0-1"},
			{N: "Results", T: Arr(Struct([]Field{
				{N: "ErrorCode", T: I16, V: "0-1"},
				{N: "ErrorMessage", T: Str, V: "0-1", Null: "0-1"},
				{N: "Entities", T: Arr(Struct([]Field{
					{N: "EntityType", T: Str, V: "0-1"},
					{N: "EntityName", T: Str, V: "0-1", Null: "0-1"},
				})), V: "0-1"},
			})), V: "0-1"},
		},
	},
	{Key: 50, Name: "DescribeUserScramCredentials", Pkg: "describeuserscramcredentials", Min: 0, Max: 0, FlexReq: 0, FlexResp: 0,
		Req: []Field{
			{N: "Users", T: Arr(Struct([]Field{
				{N: "Name", T: Str, V: "0-0"},
			})), V: "0-0"},
		},
		Resp: []Field{
			{N: "ThrottleTimeMs", T: I32, V: "0-0"},
			{N: "ErrorCode", T: I16, V: "0-0"},
			{N: "ErrorMessage", T: Str, V: "0-0", Null: "0-0"},
			{N: "Results", T: Arr(Struct([]Field{
				{N: "User", T: Str, V: "0-0"},
				{N: "ErrorCode", T: I16, V: "0-0"},
				{N: "ErrorMessage", T: Str, V: "0-0", Null: "0-0"},
				{N: "CredentialInfos", T: Arr(Struct([]Field{
					{N: "Mechanism", T: I8, V: "0-0"},
					{N: "Iterations", T: I32, V: "0-0"},
				})), V: "0-0"},
			})), V: "0-0"},
		},
	},
	{Key: 51, Name: "AlterUserScramCredentials", Pkg: "alteruserscramcredentials", Min: 0, Max: 0, FlexReq: 0, FlexResp: 0,
		Req: []Field{
			{N: "Deletions", T: Arr(Struct([]Field{
				{N: "Name", T: Str, V: "0-0"},
				{N: "Mechanism", T: I8, V: "0-0"},
			})), V: "0-0"},
			{N: "Upsertions", T: Arr(Struct([]Field{
				{N: "Name", T: Str, V: "0-0"},
				{N: "Mechanism", T: I8, V: "0-0"},
				{N: "Iterations", T: I32, V: "0-0"},
				{N: "Salt", T: Bytes, V: "0-0"},
				{N: "SaltedPassword", T: Bytes, V: "0-0"},
			})), V: "0-0"},
		},
		Resp: []Field{
			{N: "ThrottleTimeMs", T: I32, V: "0-0"},
			{N: "Results", T: Arr(Struct([]Field{
				{N: "User", T: Str, V: "0-0"},
				{N: "ErrorCode", T: I16, V: "0-0"},
				{N: "ErrorMessage", T: Str, V: "0-0", Null: "0-0"},
			})), V: "0-0"},
		},
	},
}
