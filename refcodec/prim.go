// Package refcodec is the harness' own Kafka wire codec, written from the
// protocol specification.  It does not import the code under test.
package refcodec

import (
	"encoding/binary"
	"errors"
	"fmt"
	"math"
)

// ---------------------------------------------------------------------------
// CRCs (table driven, own implementation)

var crcIEEE, crcCastagnoli [256]uint32

func init() {
	mk := func(poly uint32, t *[256]uint32) {
		for i := 0; i < 256; i++ {
			c := uint32(i)
			for k := 0; k < 8; k++ {
				if c&1 != 0 {
					c = (c >> 1) ^ poly
				} else {
					c >>= 1
				}
			}
			t[i] = c
		}
	}
	mk(0xEDB88320, &crcIEEE)       // CRC-32 (IEEE 802.3), reflected
	mk(0x82F63B78, &crcCastagnoli) // CRC-32C, reflected
}

func crcUpdate(t *[256]uint32, b []byte) uint32 {
	c := ^uint32(0)
	for _, x := range b {
		c = t[byte(c)^x] ^ (c >> 8)
	}
	return ^c
}

// CRC32 is CRC-32/IEEE, used by message formats 0 and 1.
func CRC32(b []byte) uint32 { return crcUpdate(&crcIEEE, b) }

// CRC32C is CRC-32/Castagnoli, used by record batches (format 2).
func CRC32C(b []byte) uint32 { return crcUpdate(&crcCastagnoli, b) }

// ---------------------------------------------------------------------------
// Writer

// LenField describes one length/count field emitted by the encoder; C17/C20
// use the list to mutate frames precisely.
type LenField struct {
	Path   string `json:"path"`
	Kind   string `json:"kind"` // frame_size string bytes array compact_string compact_bytes compact_array tag_count tag_id tag_size records_size batch_length message_size varint_len
	Off    int    `json:"off"`
	Width  int    `json:"width"`  // bytes occupied (varints: encoded length)
	Varint bool   `json:"varint"` // unsigned varint (compact) vs fixed big-endian
	Zigzag bool   `json:"zigzag"` // zig-zag varint (record fields)
	Value  int64  `json:"value"`  // logical value written (the raw integer on the wire)
}

type Writer struct {
	B      []byte
	Fields []LenField
	path   []string
	Track  bool
}

func (w *Writer) push(s string) { w.path = append(w.path, s) }
func (w *Writer) pop()          { w.path = w.path[:len(w.path)-1] }
func (w *Writer) curPath() string {
	s := ""
	for i, p := range w.path {
		if i > 0 {
			s += "."
		}
		s += p
	}
	return s
}

func (w *Writer) mark(kind string, off, width int, varint, zigzag bool, v int64) {
	if w.Track {
		w.Fields = append(w.Fields, LenField{w.curPath(), kind, off, width, varint, zigzag, v})
	}
}

func (w *Writer) Int8(v int8)   { w.B = append(w.B, byte(v)) }
func (w *Writer) Int16(v int16) { w.B = binary.BigEndian.AppendUint16(w.B, uint16(v)) }
func (w *Writer) Int32(v int32) { w.B = binary.BigEndian.AppendUint32(w.B, uint32(v)) }
func (w *Writer) Int64(v int64) { w.B = binary.BigEndian.AppendUint64(w.B, uint64(v)) }
func (w *Writer) Float64(v float64) {
	w.B = binary.BigEndian.AppendUint64(w.B, math.Float64bits(v))
}
func (w *Writer) Bool(v bool) {
	if v {
		w.B = append(w.B, 1)
	} else {
		w.B = append(w.B, 0)
	}
}
func (w *Writer) Raw(b []byte) { w.B = append(w.B, b...) }

func (w *Writer) Uvarint(v uint64) int {
	n := 0
	for v >= 0x80 {
		w.B = append(w.B, byte(v)|0x80)
		v >>= 7
		n++
	}
	w.B = append(w.B, byte(v))
	return n + 1
}

func (w *Writer) Varint(v int64) int { return w.Uvarint(uint64((v << 1) ^ (v >> 63))) }

func (w *Writer) lenFixed16(kind string, n int) {
	w.mark(kind, len(w.B), 2, false, false, int64(n))
	w.Int16(int16(n))
}
func (w *Writer) lenFixed32(kind string, n int) {
	w.mark(kind, len(w.B), 4, false, false, int64(n))
	w.Int32(int32(n))
}
func (w *Writer) lenUvarint(kind string, n uint64) {
	off := len(w.B)
	k := w.Uvarint(n)
	w.mark(kind, off, k, true, false, int64(n))
}
func (w *Writer) lenVarint(kind string, n int64) {
	off := len(w.B)
	k := w.Varint(n)
	w.mark(kind, off, k, true, true, n)
}

// String writes STRING / NULLABLE_STRING (null => -1).
func (w *Writer) String(s *string) {
	if s == nil {
		w.lenFixed16("string", -1)
		return
	}
	w.lenFixed16("string", len(*s))
	w.B = append(w.B, *s...)
}

// CompactString writes COMPACT_STRING / COMPACT_NULLABLE_STRING (null => 0).
func (w *Writer) CompactString(s *string) {
	if s == nil {
		w.lenUvarint("compact_string", 0)
		return
	}
	w.lenUvarint("compact_string", uint64(len(*s))+1)
	w.B = append(w.B, *s...)
}

// Bytes writes BYTES / NULLABLE_BYTES; null is signalled by isNull.
func (w *Writer) Bytes(b []byte, isNull bool) {
	if isNull {
		w.lenFixed32("bytes", -1)
		return
	}
	w.lenFixed32("bytes", len(b))
	w.B = append(w.B, b...)
}

func (w *Writer) CompactBytes(b []byte, isNull bool) {
	if isNull {
		w.lenUvarint("compact_bytes", 0)
		return
	}
	w.lenUvarint("compact_bytes", uint64(len(b))+1)
	w.B = append(w.B, b...)
}

// ---------------------------------------------------------------------------
// Reader

var ErrShort = errors.New("refcodec: short buffer")

type Reader struct {
	B   []byte
	Off int
	Err error
}

func (r *Reader) Remaining() int { return len(r.B) - r.Off }

func (r *Reader) fail(err error) {
	if r.Err == nil {
		r.Err = err
	}
}

func (r *Reader) take(n int) []byte {
	if r.Err != nil {
		return nil
	}
	if n < 0 || r.Remaining() < n {
		r.fail(fmt.Errorf("%w: need %d bytes at offset %d, have %d", ErrShort, n, r.Off, r.Remaining()))
		return nil
	}
	b := r.B[r.Off : r.Off+n]
	r.Off += n
	return b
}

func (r *Reader) Int8() int8 {
	if b := r.take(1); b != nil {
		return int8(b[0])
	}
	return 0
}
func (r *Reader) Int16() int16 {
	if b := r.take(2); b != nil {
		return int16(binary.BigEndian.Uint16(b))
	}
	return 0
}
func (r *Reader) Int32() int32 {
	if b := r.take(4); b != nil {
		return int32(binary.BigEndian.Uint32(b))
	}
	return 0
}
func (r *Reader) Int64() int64 {
	if b := r.take(8); b != nil {
		return int64(binary.BigEndian.Uint64(b))
	}
	return 0
}
func (r *Reader) Float64() float64 {
	if b := r.take(8); b != nil {
		return math.Float64frombits(binary.BigEndian.Uint64(b))
	}
	return 0
}
func (r *Reader) Bool() bool {
	b := r.take(1)
	if b == nil {
		return false
	}
	if b[0] > 1 {
		r.fail(fmt.Errorf("refcodec: boolean byte %#x at offset %d is neither 0 nor 1", b[0], r.Off-1))
	}
	return b[0] != 0
}

// Uvarint reads an unsigned varint; encodings longer than 10 bytes or not
// minimal are rejected (the canonical encoding is minimal).
func (r *Reader) Uvarint() uint64 {
	var x uint64
	var s uint
	start := r.Off
	for i := 0; ; i++ {
		b := r.take(1)
		if b == nil {
			return 0
		}
		if i == 9 && b[0] > 1 {
			r.fail(fmt.Errorf("refcodec: varint overflows 64 bits at offset %d", start))
			return 0
		}
		if b[0] < 0x80 {
			if i > 0 && b[0] == 0 {
				r.fail(fmt.Errorf("refcodec: non-minimal varint at offset %d", start))
				return 0
			}
			return x | uint64(b[0])<<s
		}
		x |= uint64(b[0]&0x7f) << s
		s += 7
	}
}

func (r *Reader) Varint() int64 {
	u := r.Uvarint()
	return int64(u>>1) ^ -int64(u&1)
}

func (r *Reader) String(nullable bool) *string {
	n := r.Int16()
	if n < 0 {
		if n != -1 || !nullable {
			r.fail(fmt.Errorf("refcodec: string length %d at offset %d (nullable=%v)", n, r.Off-2, nullable))
		}
		return nil
	}
	b := r.take(int(n))
	if b == nil {
		return nil
	}
	s := string(b)
	return &s
}

func (r *Reader) CompactString(nullable bool) *string {
	at := r.Off
	n := r.Uvarint()
	if n == 0 {
		if !nullable {
			r.fail(fmt.Errorf("refcodec: null compact string at offset %d in a non-nullable field", at))
		}
		return nil
	}
	if n-1 > uint64(r.Remaining()) {
		r.fail(fmt.Errorf("%w: compact string of %d bytes at offset %d", ErrShort, n-1, at))
		return nil
	}
	b := r.take(int(n - 1))
	if b == nil {
		return nil
	}
	s := string(b)
	return &s
}

func (r *Reader) Bytes(nullable bool) (b []byte, isNull bool) {
	n := r.Int32()
	if n < 0 {
		if n != -1 || !nullable {
			r.fail(fmt.Errorf("refcodec: bytes length %d at offset %d (nullable=%v)", n, r.Off-4, nullable))
		}
		return nil, true
	}
	x := r.take(int(n))
	if x == nil {
		return nil, false
	}
	return append([]byte{}, x...), false
}

func (r *Reader) CompactBytes(nullable bool) (b []byte, isNull bool) {
	at := r.Off
	n := r.Uvarint()
	if n == 0 {
		if !nullable {
			r.fail(fmt.Errorf("refcodec: null compact bytes at offset %d in a non-nullable field", at))
		}
		return nil, true
	}
	if n-1 > uint64(r.Remaining()) {
		r.fail(fmt.Errorf("%w: compact bytes of %d at offset %d", ErrShort, n-1, at))
		return nil, false
	}
	x := r.take(int(n - 1))
	if x == nil {
		return nil, false
	}
	return append([]byte{}, x...), false
}
