package refcodec

import (
	"bytes"
	"hash/crc32"
	"testing"

	"pgregory.net/rapid"
)

func TestCRCVectors(t *testing.T) {
	if CRC32([]byte("123456789")) != 0xCBF43926 {
		t.Fatal("crc32 check vector")
	}
	if CRC32C([]byte("123456789")) != 0xE3069283 {
		t.Fatal("crc32c check vector")
	}
	rapid.Check(t, func(t *rapid.T) {
		b := rapid.SliceOf(rapid.Byte()).Draw(t, "b")
		if CRC32(b) != crc32.ChecksumIEEE(b) || CRC32C(b) != crc32.Checksum(b, crc32.MakeTable(crc32.Castagnoli)) {
			t.Fatal("crc mismatch with hash/crc32")
		}
	})
}

func TestVarintVectors(t *testing.T) {
	for _, c := range []struct {
		v int64
		b []byte
	}{{0, []byte{0}}, {-1, []byte{1}}, {1, []byte{2}}, {-2, []byte{3}}, {63, []byte{0x7e}}, {-64, []byte{0x7f}}, {64, []byte{0x80, 1}}, {300, []byte{0xd8, 4}}} {
		w := &Writer{}
		w.Varint(c.v)
		if !bytes.Equal(w.B, c.b) {
			t.Fatalf("varint %d = %x want %x", c.v, w.B, c.b)
		}
		r := &Reader{B: c.b}
		if got := r.Varint(); got != c.v || r.Err != nil {
			t.Fatalf("decode %x = %d", c.b, got)
		}
	}
}

// A byte-exact frame written out by hand from the protocol guide:
// Metadata v1 request, correlation 7, client "ab", topics ["t"].
func TestHandWrittenFrame(t *testing.T) {
	want := []byte{0, 0, 0, 19, 0, 3, 0, 1, 0, 0, 0, 7, 0, 2, 'a', 'b', 0, 0, 0, 1, 0, 1, 't'}
	cid := "ab"
	got, _, err := EncodeRequest(MustLookup(3), 1, 7, &cid, map[string]any{"TopicNames": []any{"t"}}, nil)
	if err != nil || !bytes.Equal(got, want) {
		t.Fatalf("got %v %v", got, err)
	}
	// FindCoordinator v0 response: corr 9, error 15, node 2 host "h" port 9092
	wantR := []byte{0, 0, 0, 17, 0, 0, 0, 9, 0, 15, 0, 0, 0, 2, 0, 1, 'h', 0, 0, 0x23, 0x84}
	gotR, _, err := EncodeResponse(MustLookup(10), 0, 9, map[string]any{"ErrorCode": int64(15), "NodeID": int64(2), "Host": "h", "Port": int64(9092)}, nil)
	if err != nil || !bytes.Equal(gotR, wantR) {
		t.Fatalf("got %v %v", gotR, err)
	}
	// Heartbeat v4 (flexible) request: group "g", generation 1, member "m", instance null
	wantH := []byte{0, 0, 0, 23, 0, 12, 0, 4, 0, 0, 0, 1, 0, 2, 'a', 'b', 0, 2, 'g', 0, 0, 0, 1, 2, 'm', 0, 0}
	gotH, _, err := EncodeRequest(MustLookup(12), 4, 1, &cid, map[string]any{"GroupID": "g", "GenerationID": int64(1), "MemberID": "m"}, nil)
	if err != nil || !bytes.Equal(gotH, wantH) {
		t.Fatalf("got %v %v", gotH, err)
	}
}

func TestOwnRoundTrip(t *testing.T) {
	rapid.Check(t, func(t *rapid.T) {
		a := &APIs[rapid.IntRange(0, len(APIs)-1).Draw(t, "api")]
		ver := int16(rapid.IntRange(int(a.Min), int(a.Max)).Draw(t, "ver"))
		recs := func(t *rapid.T, path string) *RecordSet {
			magic := int8(2)
			if ver < 3 {
				magic = 1
			}
			rs := GenRecords(t, rapid.IntRange(1, 4).Draw(t, "n"), 5, magic, true, false)
			if magic == 2 {
				return &RecordSet{Batches: []Batch{MakeBatchV2(rs, int8(rapid.IntRange(0, 4).Draw(t, "codec")))}}
			}
			return &RecordSet{Batches: []Batch{{Magic: magic, Records: rs}}}
		}
		body := GenBody(t, a.Resp, ver, ForLibDecode, 0, recs)
		fr, _, err := EncodeResponse(a, ver, 5, body, &EncOpts{UnknownTags: GenUnknownTags(t)})
		if err != nil {
			t.Fatalf("encode: %v", err)
		}
		_, back, err := DecodeResponse(a, ver, fr)
		if err != nil {
			t.Fatalf("%s v%d decode: %v", a.Name, ver, err)
		}
		if d := Diff(a.Resp, ver, body, back, false); d != "" {
			t.Fatalf("%s v%d: %s", a.Name, ver, d)
		}
		rb := GenBody(t, a.Req, ver, ForLibEncode, 0, recs)
		cid := "c"
		fq, _, err := EncodeRequest(a, ver, 5, &cid, rb, nil)
		if err != nil {
			t.Fatalf("encode req: %v", err)
		}
		_, _, back, err = DecodeRequest(fq)
		if err != nil {
			t.Fatalf("%s v%d decode req: %v", a.Name, ver, err)
		}
		if d := Diff(a.Req, ver, rb, back, false); d != "" {
			t.Fatalf("%s v%d req: %s", a.Name, ver, d)
		}
	})
}
