package refcodec

import (
	"bytes"
	"compress/gzip"
	"encoding/binary"
	"fmt"
	"io"

	"github.com/golang/snappy"
	"github.com/klauspost/compress/zstd"
	"github.com/pierrec/lz4/v4"
)

// Codec ids as in the attributes field.
const (
	CodecNone   = 0
	CodecGzip   = 1
	CodecSnappy = 2
	CodecLz4    = 3
	CodecZstd   = 4
)

// Header of a format-2 record.
type Header struct {
	Key       string `json:"key"`
	Value     []byte `json:"value"`
	ValueNull bool   `json:"value_null,omitempty"`
}

// Record is one logical record with its absolute offset and ms timestamp.
type Record struct {
	Offset    int64    `json:"offset"`
	Timestamp int64    `json:"timestamp"` // milliseconds; formats >= 1
	Key       []byte   `json:"key"`
	Value     []byte   `json:"value"`
	KeyNull   bool     `json:"key_null,omitempty"`
	ValueNull bool     `json:"value_null,omitempty"`
	Headers   []Header `json:"headers,omitempty"`
}

// Batch is one physical unit of a record set: a format-2 record batch, a
// compressed format-0/1 wrapper message, or (Codec 0, Magic 0/1) a run of plain
// messages.
type Batch struct {
	Magic int8 `json:"magic"`
	Codec int8 `json:"codec"`
	// format 2 header fields
	BaseOffset      int64 `json:"base_offset"`
	LeaderEpoch     int32 `json:"leader_epoch,omitempty"`
	LastOffsetDelta int32 `json:"last_offset_delta"` // may exceed the last record's delta after compaction
	FirstTimestamp  int64 `json:"first_timestamp"`
	MaxTimestamp    int64 `json:"max_timestamp"`
	ProducerID      int64 `json:"producer_id"`
	ProducerEpoch   int16 `json:"producer_epoch"`
	BaseSequence    int32 `json:"base_sequence"`
	Transactional   bool  `json:"transactional,omitempty"`
	Control         bool  `json:"control,omitempty"`
	LogAppendTime   bool  `json:"log_append_time,omitempty"`
	// Count overrides the record count field when >= 0 is wanted different
	// from len(Records) (never generated for valid data); -1 = len(Records).
	Records []Record `json:"records"`
	// format 0/1 wrappers: inner offsets relative (0..n-1) as brokers >= 0.10
	// store them for magic 1, or absolute (magic 0).
	RelativeInner bool `json:"relative_inner,omitempty"`
	// SparseInner (encode only, with RelativeInner): the relative inner offsets
	// keep the holes of the records' absolute offsets (offset - first offset),
	// as the log cleaner writes a compacted format-1 wrapper; default: 0..n-1.
	SparseInner bool `json:"sparse_inner,omitempty"`
	// SparseShift (encode only, with SparseInner): added to every relative inner offset: the first record(s) of the
	// original wrapper were cleaned away too, the remaining ones keep their distance to the original first offset.
	SparseShift int64 `json:"sparse_shift,omitempty"`
	// CorruptCRC flips a bit of the checksum (encode only).
	CorruptCRC bool `json:"corrupt_crc,omitempty"`
	// Attributes as found on the wire (decode only).
	Attributes int16 `json:"attributes,omitempty"`
	// SnappyXerial: encode snappy payloads with xerial framing (decode: found).
	SnappyXerial bool `json:"snappy_xerial,omitempty"`
	// Decode only, format 0/1 wrappers: offset of the wrapper message and the
	// inner offsets exactly as found on the wire.
	WrapperOffset   int64   `json:"wrapper_offset,omitempty"`
	RawInnerOffsets []int64 `json:"raw_inner_offsets,omitempty"`
	// WrapperOffsetOverride (encode only): use this wrapper offset instead of
	// the last record's offset when >= 0 is set via HasWrapperOverride.
}

// RecordSet is the content of a records field.
type RecordSet struct {
	Batches []Batch `json:"batches"`
	// Truncate, when > 0, cuts the encoded set to that many bytes (partial
	// trailing message, as brokers do for old fetch versions).
	Truncate int `json:"truncate,omitempty"`
	// Raw is set by the lenient decoder instead of Batches.
	Raw []byte `json:"raw,omitempty"`
}

// AllRecords lists the records of all non-control batches.
func (rs *RecordSet) AllRecords() []Record {
	var out []Record
	for _, b := range rs.Batches {
		if b.Control {
			continue
		}
		out = append(out, b.Records...)
	}
	return out
}

// Encode returns the wire form of the record set.
func (rs *RecordSet) Encode() ([]byte, error) {
	w := &Writer{}
	if err := rs.encode(w); err != nil {
		return nil, err
	}
	return w.B, nil
}

func (rs *RecordSet) encode(w *Writer) error {
	if rs.Raw != nil {
		w.Raw(rs.Raw)
		return nil
	}
	start := len(w.B)
	for i := range rs.Batches {
		w.push(fmt.Sprintf("batch[%d]", i))
		err := rs.Batches[i].encode(w)
		w.pop()
		if err != nil {
			return err
		}
	}
	if rs.Truncate > 0 && rs.Truncate < len(w.B)-start {
		w.B = w.B[:start+rs.Truncate]
		// drop field marks beyond the cut
		k := 0
		for _, f := range w.Fields {
			if f.Off+f.Width <= len(w.B) {
				w.Fields[k] = f
				k++
			}
		}
		w.Fields = w.Fields[:k]
	}
	return nil
}

func (b *Batch) attributes() int16 {
	a := int16(b.Codec) & 7
	if b.LogAppendTime {
		a |= 1 << 3
	}
	if b.Magic == 2 {
		if b.Transactional {
			a |= 1 << 4
		}
		if b.Control {
			a |= 1 << 5
		}
	}
	return a
}

func (b *Batch) encode(w *Writer) error {
	switch b.Magic {
	case 2:
		return b.encodeV2(w)
	case 0, 1:
		if b.Codec == CodecNone {
			attr := int8(0)
			if b.LogAppendTime && b.Magic == 1 {
				attr = 1 << 3 // timestamp type: log append time
			}
			for i := range b.Records {
				encodeMessage(w, b.Magic, attr, b.Records[i].Offset, &b.Records[i], b.CorruptCRC)
			}
			return nil
		}
		inner := &Writer{}
		for i := range b.Records {
			off := b.Records[i].Offset
			if b.RelativeInner {
				off = int64(i)
				if b.SparseInner {
					off = b.Records[i].Offset - b.Records[0].Offset + b.SparseShift
				}
			}
			encodeMessage(inner, b.Magic, 0, off, &b.Records[i], false)
		}
		comp, err := Compress(b.Codec, inner.B, b.SnappyXerial)
		if err != nil {
			return err
		}
		if len(b.Records) == 0 {
			return fmt.Errorf("empty compressed wrapper")
		}
		last := b.Records[len(b.Records)-1]
		wrap := Record{Offset: last.Offset, Timestamp: b.MaxTimestamp, KeyNull: true, Value: comp}
		if wrap.Timestamp == 0 {
			for _, r := range b.Records {
				if r.Timestamp > wrap.Timestamp {
					wrap.Timestamp = r.Timestamp
				}
			}
		}
		encodeMessage(w, b.Magic, int8(b.attributes()), last.Offset, &wrap, b.CorruptCRC)
		return nil
	}
	return fmt.Errorf("bad magic %d", b.Magic)
}

// encodeMessage writes offset, size and a format-0/1 message.
func encodeMessage(w *Writer, magic int8, attr int8, offset int64, r *Record, corrupt bool) {
	w.Int64(offset)
	szOff := len(w.B)
	w.Int32(0)
	crcOff := len(w.B)
	w.Int32(0)
	body := len(w.B)
	w.Int8(magic)
	w.Int8(attr)
	if magic == 1 {
		w.Int64(r.Timestamp)
	}
	w.push("key")
	w.Bytes(r.Key, r.KeyNull)
	w.pop()
	w.push("value")
	w.Bytes(r.Value, r.ValueNull)
	w.pop()
	crc := CRC32(w.B[body:])
	if corrupt {
		crc ^= 0x10
	}
	binary.BigEndian.PutUint32(w.B[crcOff:], crc)
	n := len(w.B) - crcOff
	binary.BigEndian.PutUint32(w.B[szOff:], uint32(n))
	w.mark("message_size", szOff, 4, false, false, int64(n))
}

func (b *Batch) encodeV2(w *Writer) error {
	recs := &Writer{Track: w.Track}
	recs.path = append(recs.path, w.path...)
	for i := range b.Records {
		r := &b.Records[i]
		body := &Writer{}
		body.Int8(0) // record attributes
		body.Varint(r.Timestamp - b.FirstTimestamp)
		body.Varint(r.Offset - b.BaseOffset)
		if r.KeyNull {
			body.Varint(-1)
		} else {
			body.Varint(int64(len(r.Key)))
			body.Raw(r.Key)
		}
		if r.ValueNull {
			body.Varint(-1)
		} else {
			body.Varint(int64(len(r.Value)))
			body.Raw(r.Value)
		}
		body.Varint(int64(len(r.Headers)))
		for _, h := range r.Headers {
			body.Varint(int64(len(h.Key)))
			body.Raw([]byte(h.Key))
			if h.ValueNull {
				body.Varint(-1)
			} else {
				body.Varint(int64(len(h.Value)))
				body.Raw(h.Value)
			}
		}
		recs.Varint(int64(len(body.B)))
		recs.Raw(body.B)
	}
	payload := recs.B
	if b.Codec != CodecNone {
		c, err := Compress(b.Codec, payload, b.SnappyXerial)
		if err != nil {
			return err
		}
		payload = c
	}
	w.Int64(b.BaseOffset)
	lenOff := len(w.B)
	w.Int32(0)
	afterLen := len(w.B)
	w.Int32(b.LeaderEpoch)
	w.Int8(2)
	crcOff := len(w.B)
	w.Int32(0)
	crcStart := len(w.B)
	w.Int16(b.attributes())
	w.Int32(b.LastOffsetDelta)
	w.Int64(b.FirstTimestamp)
	w.Int64(b.MaxTimestamp)
	w.Int64(b.ProducerID)
	w.Int16(b.ProducerEpoch)
	w.Int32(b.BaseSequence)
	w.Int32(int32(len(b.Records)))
	w.Raw(payload)
	crc := CRC32C(w.B[crcStart:])
	if b.CorruptCRC {
		crc ^= 0x10
	}
	binary.BigEndian.PutUint32(w.B[crcOff:], crc)
	n := len(w.B) - afterLen
	binary.BigEndian.PutUint32(w.B[lenOff:], uint32(n))
	w.mark("batch_length", lenOff, 4, false, false, int64(n))
	return nil
}

// ---------------------------------------------------------------------------
// Strict decoding

// DecodeRecordSet decodes and validates a complete record set (no truncation
// allowed): lengths consistent, checksums valid, counts and offset deltas
// consistent.
func DecodeRecordSet(b []byte) (*RecordSet, error) {
	rs := &RecordSet{}
	r := &Reader{B: b}
	for r.Remaining() > 0 {
		if r.Remaining() < 17 {
			return rs, fmt.Errorf("%d stray bytes at the end of the record set", r.Remaining())
		}
		magic := int8(b[r.Off+16])
		switch magic {
		case 2:
			bt, err := decodeV2(r)
			if err != nil {
				return rs, err
			}
			rs.Batches = append(rs.Batches, *bt)
		case 0, 1:
			bt, err := decodeLegacy(r)
			if err != nil {
				return rs, err
			}
			// merge consecutive plain messages of the same magic into one run
			if n := len(rs.Batches); n > 0 && bt.Codec == CodecNone && rs.Batches[n-1].Codec == CodecNone && rs.Batches[n-1].Magic == bt.Magic {
				rs.Batches[n-1].Records = append(rs.Batches[n-1].Records, bt.Records...)
			} else {
				rs.Batches = append(rs.Batches, *bt)
			}
		default:
			return rs, fmt.Errorf("unknown magic %d at offset %d", magic, r.Off+16)
		}
	}
	return rs, nil
}

func decodeLegacy(r *Reader) (*Batch, error) {
	offset := r.Int64()
	size := r.Int32()
	if r.Err != nil {
		return nil, r.Err
	}
	if size < 14 || int(size) > r.Remaining() {
		return nil, fmt.Errorf("message size %d with %d bytes remaining", size, r.Remaining())
	}
	msg := r.take(int(size))
	m := &Reader{B: msg}
	crc := uint32(m.Int32())
	if got := CRC32(msg[4:]); got != crc {
		return nil, fmt.Errorf("message at offset %d: crc %08x, computed %08x", offset, crc, got)
	}
	magic := m.Int8()
	attr := m.Int8()
	var ts int64
	if magic == 1 {
		ts = m.Int64()
	}
	key, keyNull := m.Bytes(true)
	val, valNull := m.Bytes(true)
	if m.Err != nil {
		return nil, fmt.Errorf("message at offset %d: %w", offset, m.Err)
	}
	if m.Remaining() != 0 {
		return nil, fmt.Errorf("message at offset %d: %d trailing bytes inside the message", offset, m.Remaining())
	}
	bt := &Batch{Magic: magic, Codec: attr & 7, Attributes: int16(attr), LogAppendTime: attr&8 != 0}
	if attr&^0x0f != 0 {
		return nil, fmt.Errorf("message at offset %d: reserved attribute bits set (%#x)", offset, attr)
	}
	if bt.Codec == CodecNone {
		bt.Records = []Record{{Offset: offset, Timestamp: ts, Key: key, KeyNull: keyNull, Value: val, ValueNull: valNull}}
		return bt, nil
	}
	bt.MaxTimestamp = ts
	inner, xerial, err := Decompress(bt.Codec, val)
	if err != nil {
		return nil, fmt.Errorf("wrapper at offset %d: %w", offset, err)
	}
	bt.SnappyXerial = xerial
	ir := &Reader{B: inner}
	for ir.Remaining() > 0 {
		ib, err := decodeLegacy(ir)
		if err != nil {
			return nil, fmt.Errorf("inside wrapper at offset %d: %w", offset, err)
		}
		if ib.Codec != CodecNone {
			return nil, fmt.Errorf("nested compressed message inside wrapper at offset %d", offset)
		}
		if ib.Magic != magic {
			return nil, fmt.Errorf("inner magic %d differs from wrapper magic %d", ib.Magic, magic)
		}
		bt.Records = append(bt.Records, ib.Records...)
		bt.RawInnerOffsets = append(bt.RawInnerOffsets, ib.Records[0].Offset)
	}
	bt.WrapperOffset = offset
	if len(bt.Records) == 0 {
		return nil, fmt.Errorf("empty wrapper at offset %d", offset)
	}
	// Inner offsets of magic-1 wrappers are relative (0..n-1) and the wrapper
	// carries the absolute offset of the last inner message; magic-0 inner
	// offsets are absolute.  A magic-1 wrapper whose inner offsets are already
	// absolute is indistinguishable from delta 0 and decodes the same way.
	if magic == 1 {
		n := len(bt.Records)
		if delta := offset - bt.Records[n-1].Offset; delta > 0 {
			for i := range bt.Records {
				bt.Records[i].Offset += delta
			}
			bt.RelativeInner = true
		}
	}
	for i := 1; i < len(bt.Records); i++ {
		if bt.Records[i].Offset <= bt.Records[i-1].Offset {
			return nil, fmt.Errorf("wrapper at offset %d: inner offsets not increasing", offset)
		}
	}
	return bt, nil
}

func decodeV2(r *Reader) (*Batch, error) {
	start := r.Off
	bt := &Batch{Magic: 2}
	bt.BaseOffset = r.Int64()
	length := r.Int32()
	if r.Err != nil {
		return nil, r.Err
	}
	if length < 49 || int(length) > r.Remaining() {
		return nil, fmt.Errorf("batch at base offset %d: length %d with %d bytes remaining", bt.BaseOffset, length, r.Remaining())
	}
	body := r.take(int(length))
	b := &Reader{B: body}
	bt.LeaderEpoch = b.Int32()
	if m := b.Int8(); m != 2 {
		return nil, fmt.Errorf("batch magic %d", m)
	}
	crc := uint32(b.Int32())
	if got := CRC32C(body[9:]); got != crc {
		return nil, fmt.Errorf("batch at base offset %d (byte %d): crc %08x, computed %08x", bt.BaseOffset, start, crc, got)
	}
	attr := b.Int16()
	bt.Attributes = attr
	bt.Codec = int8(attr & 7)
	bt.LogAppendTime = attr&8 != 0
	bt.Transactional = attr&16 != 0
	bt.Control = attr&32 != 0
	if attr&^0x3f != 0 {
		return nil, fmt.Errorf("batch at base offset %d: reserved attribute bits set (%#x)", bt.BaseOffset, attr)
	}
	bt.LastOffsetDelta = b.Int32()
	bt.FirstTimestamp = b.Int64()
	bt.MaxTimestamp = b.Int64()
	bt.ProducerID = b.Int64()
	bt.ProducerEpoch = b.Int16()
	bt.BaseSequence = b.Int32()
	count := b.Int32()
	if b.Err != nil {
		return nil, b.Err
	}
	payload := body[b.Off:]
	if bt.Codec != CodecNone {
		p, xerial, err := Decompress(bt.Codec, payload)
		if err != nil {
			return nil, fmt.Errorf("batch at base offset %d: %w", bt.BaseOffset, err)
		}
		payload = p
		bt.SnappyXerial = xerial
	}
	if count < 0 {
		return nil, fmt.Errorf("batch at base offset %d: record count %d", bt.BaseOffset, count)
	}
	pr := &Reader{B: payload}
	for i := int32(0); i < count; i++ {
		n := pr.Varint()
		if pr.Err != nil {
			return nil, fmt.Errorf("batch %d record %d: %w", bt.BaseOffset, i, pr.Err)
		}
		if n < 0 || n > int64(pr.Remaining()) {
			return nil, fmt.Errorf("batch %d record %d: length %d with %d bytes remaining", bt.BaseOffset, i, n, pr.Remaining())
		}
		rr := &Reader{B: pr.take(int(n))}
		if a := rr.Int8(); a != 0 {
			return nil, fmt.Errorf("batch %d record %d: attributes %d", bt.BaseOffset, i, a)
		}
		rec := Record{}
		rec.Timestamp = bt.FirstTimestamp + rr.Varint()
		rec.Offset = bt.BaseOffset + rr.Varint()
		rec.Key, rec.KeyNull = varBytes(rr)
		rec.Value, rec.ValueNull = varBytes(rr)
		nh := rr.Varint()
		if nh < 0 || nh > int64(rr.Remaining()) {
			return nil, fmt.Errorf("batch %d record %d: header count %d", bt.BaseOffset, i, nh)
		}
		for h := int64(0); h < nh; h++ {
			k, kn := varBytes(rr)
			if kn {
				return nil, fmt.Errorf("batch %d record %d: null header key", bt.BaseOffset, i)
			}
			v, vn := varBytes(rr)
			rec.Headers = append(rec.Headers, Header{Key: string(k), Value: v, ValueNull: vn})
		}
		if rr.Err != nil {
			return nil, fmt.Errorf("batch %d record %d: %w", bt.BaseOffset, i, rr.Err)
		}
		if rr.Remaining() != 0 {
			return nil, fmt.Errorf("batch %d record %d: %d trailing bytes inside the record", bt.BaseOffset, i, rr.Remaining())
		}
		bt.Records = append(bt.Records, rec)
	}
	if pr.Remaining() != 0 {
		return nil, fmt.Errorf("batch %d: %d bytes after the last of %d records", bt.BaseOffset, pr.Remaining(), count)
	}
	return bt, nil
}

func varBytes(r *Reader) ([]byte, bool) {
	n := r.Varint()
	if n < 0 {
		if n != -1 {
			r.fail(fmt.Errorf("varint length %d", n))
		}
		return nil, true
	}
	if n > int64(r.Remaining()) {
		r.fail(fmt.Errorf("%w: var bytes of %d", ErrShort, n))
		return nil, false
	}
	b := r.take(int(n))
	return append([]byte{}, b...), false
}

// ---------------------------------------------------------------------------
// Compression through the format libraries directly (never kafka-go/compress)

var xerialMagic = []byte{0x82, 'S', 'N', 'A', 'P', 'P', 'Y', 0}

// Compress compresses p with the codec.
func Compress(codec int8, p []byte, snappyXerial bool) ([]byte, error) {
	var buf bytes.Buffer
	switch codec {
	case CodecGzip:
		zw := gzip.NewWriter(&buf)
		zw.Write(p)
		zw.Close()
	case CodecSnappy:
		if !snappyXerial {
			return snappy.Encode(nil, p), nil
		}
		buf.Write(xerialMagic)
		binary.Write(&buf, binary.BigEndian, int32(1))
		binary.Write(&buf, binary.BigEndian, int32(1))
		for len(p) > 0 {
			n := len(p)
			if n > 32*1024 {
				n = 32 * 1024
			}
			blk := snappy.Encode(nil, p[:n])
			binary.Write(&buf, binary.BigEndian, int32(len(blk)))
			buf.Write(blk)
			p = p[n:]
		}
	case CodecLz4:
		zw := lz4.NewWriter(&buf)
		zw.Write(p)
		zw.Close()
	case CodecZstd:
		zw, err := zstd.NewWriter(&buf)
		if err != nil {
			return nil, err
		}
		zw.Write(p)
		zw.Close()
	case 5, 6, 7:
		// a codec of the future: consumers that do not know the id cannot open it, whatever the bytes are
		buf.WriteString("codec-of-the-future:")
		buf.Write(p)
	default:
		return nil, fmt.Errorf("unknown codec %d", codec)
	}
	return buf.Bytes(), nil
}

// Decompress inverts Compress; for snappy it reports whether xerial framing was found.
func Decompress(codec int8, p []byte) ([]byte, bool, error) {
	switch codec {
	case 5, 6, 7:
		return bytes.TrimPrefix(p, []byte("codec-of-the-future:")), false, nil
	case CodecGzip:
		zr, err := gzip.NewReader(bytes.NewReader(p))
		if err != nil {
			return nil, false, err
		}
		out, err := io.ReadAll(zr)
		return out, false, err
	case CodecSnappy:
		if len(p) >= 16 && bytes.Equal(p[:8], xerialMagic) {
			var out []byte
			q := p[16:]
			for len(q) > 0 {
				if len(q) < 4 {
					return nil, true, fmt.Errorf("xerial: truncated block length")
				}
				n := int(binary.BigEndian.Uint32(q))
				q = q[4:]
				if n < 0 || n > len(q) {
					return nil, true, fmt.Errorf("xerial: block of %d bytes with %d left", n, len(q))
				}
				d, err := snappy.Decode(nil, q[:n])
				if err != nil {
					return nil, true, err
				}
				out = append(out, d...)
				q = q[n:]
			}
			return out, true, nil
		}
		out, err := snappy.Decode(nil, p)
		return out, false, err
	case CodecLz4:
		out, err := io.ReadAll(lz4.NewReader(bytes.NewReader(p)))
		return out, false, err
	case CodecZstd:
		zr, err := zstd.NewReader(bytes.NewReader(p))
		if err != nil {
			return nil, false, err
		}
		defer zr.Close()
		out, err := io.ReadAll(zr)
		return out, false, err
	}
	return nil, false, fmt.Errorf("unknown codec %d", codec)
}
