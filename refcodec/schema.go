package refcodec

import (
	"fmt"
	"strconv"
	"strings"
)

// Kind of a schema type.
type Kind uint8

const (
	KBool Kind = iota
	KInt8
	KInt16
	KInt32
	KInt64
	KFloat64
	KString
	KBytes
	KArray
	KStruct
	KInline  // a Go-level grouping of fields that is flat on the wire (no own tag buffer)
	KRecords // a record set (message set / record batches), see records.go
)

func (k Kind) String() string {
	return [...]string{"bool", "int8", "int16", "int32", "int64", "float64", "string", "bytes", "array", "struct", "inline", "records"}[k]
}

// Type is a schema type.
type Type struct {
	Kind   Kind
	Elem   *Type   // arrays
	Fields []Field // structs
}

var (
	Bool    = &Type{Kind: KBool}
	I8      = &Type{Kind: KInt8}
	I16     = &Type{Kind: KInt16}
	I32     = &Type{Kind: KInt32}
	I64     = &Type{Kind: KInt64}
	F64     = &Type{Kind: KFloat64}
	Str     = &Type{Kind: KString}
	Bytes   = &Type{Kind: KBytes}
	Records = &Type{Kind: KRecords}
)

func Arr(t *Type) *Type       { return &Type{Kind: KArray, Elem: t} }
func Struct(fs []Field) *Type { return &Type{Kind: KStruct, Fields: fs} }
func Inline(fs []Field) *Type { return &Type{Kind: KInline, Fields: fs} }

// Field of a message or nested struct.  N is the Go field name used by the
// library's struct for the same wire field (so values can be moved by name).
type Field struct {
	N      string
	T      *Type
	V      string // versions in which the field exists, e.g. "0-8" or "0-2,5-7"
	Null   string // versions in which it may be null
	Tagged string // versions in which it travels in the tag buffer
	Tag    int    // tag id when Tagged != ""
	// Unpinned marks a field whose specification value could not be
	// established with confidence: it never is the basis of a VIOLATION.
	Unpinned bool

	v, null, tagged ranges
}

type ranges [][2]int16

func parseRanges(s string) ranges {
	var out ranges
	for _, p := range strings.Split(s, ",") {
		if p == "" {
			continue
		}
		lo, hi, ok := strings.Cut(p, "-")
		a, err := strconv.Atoi(lo)
		if err != nil {
			panic("bad range " + s)
		}
		b := a
		if ok {
			b, err = strconv.Atoi(hi)
			if err != nil {
				panic("bad range " + s)
			}
		}
		out = append(out, [2]int16{int16(a), int16(b)})
	}
	return out
}

func (r ranges) has(v int16) bool {
	for _, x := range r {
		if x[0] <= v && v <= x[1] {
			return true
		}
	}
	return false
}

func (f *Field) In(v int16) bool       { return f.v.has(v) }
func (f *Field) NullIn(v int16) bool   { return f.null.has(v) }
func (f *Field) TaggedIn(v int16) bool { return f.tagged.has(v) }

// API is one request/response pair.
type API struct {
	Key      int16
	Name     string
	Pkg      string // kafka-go protocol sub-package
	Min, Max int16  // version range registered by the library (pinned)
	FlexReq  int16  // first flexible request version, -1 = none in range
	FlexResp int16
	Req      []Field
	Resp     []Field
}

func (a *API) ReqFlexible(v int16) bool  { return a.FlexReq >= 0 && v >= a.FlexReq }
func (a *API) RespFlexible(v int16) bool { return a.FlexResp >= 0 && v >= a.FlexResp }

// RespHeaderFlexible: response header v1 (with tag buffer) is used by flexible
// versions of every API except ApiVersions (key 18), which always uses v0.
func (a *API) RespHeaderFlexible(v int16) bool { return a.Key != 18 && a.RespFlexible(v) }

func prepare(fs []Field) {
	for i := range fs {
		f := &fs[i]
		f.v = parseRanges(f.V)
		f.null = parseRanges(f.Null)
		f.tagged = parseRanges(f.Tagged)
		for t := f.T; t != nil; t = t.Elem {
			if t.Fields != nil {
				prepare(t.Fields)
			}
		}
	}
}

var byKey = map[int16]*API{}

func init() {
	for i := range APIs {
		a := &APIs[i]
		prepare(a.Req)
		prepare(a.Resp)
		byKey[a.Key] = a
	}
}

// Lookup returns the API with the given key.
func Lookup(key int16) *API { return byKey[key] }

// MustLookup panics when the API is unknown.
func MustLookup(key int16) *API {
	a := byKey[key]
	if a == nil {
		panic(fmt.Sprintf("refcodec: unknown api key %d", key))
	}
	return a
}
