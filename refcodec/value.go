package refcodec

import (
	"fmt"
	"sort"
)

// Value trees: struct = map[string]any, array = []any (nil any = null),
// string = string (nil = null), bytes = []byte (nil any = null), integers =
// int64, bool, float64, records = *RecordSet (nil any = null).

// RawTag is an unknown tagged field.
type RawTag struct {
	ID   uint64
	Data []byte
}

// EncOpts tunes the reference encoder.
type EncOpts struct {
	// UnknownTags, when set, is asked for extra tagged fields to append to the
	// tag buffer of the struct at path (flexible versions only).  Their ids
	// must not collide with known tags; they are emitted in ascending id order
	// together with the known ones, as the specification requires.
	UnknownTags func(path string) []RawTag
	// OmitDefaultTagged omits known tagged fields whose value is the zero value.
	OmitDefaultTagged bool
}

func isZero(t *Type, v any) bool {
	switch t.Kind {
	case KBool:
		return v == nil || v.(bool) == false
	case KInt8, KInt16, KInt32, KInt64:
		return v == nil || v.(int64) == 0
	case KFloat64:
		return v == nil || v.(float64) == 0
	case KString:
		return v == nil || v.(string) == ""
	case KBytes:
		return v == nil || len(v.([]byte)) == 0
	case KArray:
		return v == nil || len(v.([]any)) == 0
	}
	return false
}

// EncodeFields writes the fields of one struct level.
func EncodeFields(w *Writer, fs []Field, ver int16, flexible bool, val map[string]any, opt *EncOpts) error {
	if err := encodePlain(w, fs, ver, flexible, val, opt); err != nil {
		return err
	}
	if flexible {
		return encodeTags(w, fs, ver, val, opt)
	}
	return nil
}

func encodePlain(w *Writer, fs []Field, ver int16, flexible bool, val map[string]any, opt *EncOpts) error {
	for i := range fs {
		f := &fs[i]
		if !f.In(ver) || f.TaggedIn(ver) {
			continue
		}
		w.push(f.N)
		var err error
		if f.T.Kind == KInline {
			sub, _ := val[f.N].(map[string]any)
			err = encodePlain(w, f.T.Fields, ver, flexible, sub, opt)
		} else {
			err = encodeValue(w, f.T, ver, flexible, f.NullIn(ver), val[f.N], opt)
		}
		w.pop()
		if err != nil {
			return fmt.Errorf("%s: %w", f.N, err)
		}
	}
	return nil
}

func encodeTags(w *Writer, fs []Field, ver int16, val map[string]any, opt *EncOpts) error {
	type tf struct {
		id   uint64
		data []byte
	}
	var tags []tf
	for i := range fs {
		f := &fs[i]
		if !f.In(ver) || !f.TaggedIn(ver) {
			continue
		}
		if opt != nil && opt.OmitDefaultTagged && isZero(f.T, val[f.N]) {
			continue
		}
		sub := &Writer{}
		if err := encodeValue(sub, f.T, ver, true, f.NullIn(ver), val[f.N], opt); err != nil {
			return err
		}
		tags = append(tags, tf{uint64(f.Tag), sub.B})
	}
	if opt != nil && opt.UnknownTags != nil {
		for _, u := range opt.UnknownTags(w.curPath()) {
			tags = append(tags, tf{u.ID, u.Data})
		}
	}
	sort.SliceStable(tags, func(i, j int) bool { return tags[i].id < tags[j].id })
	w.push("_tags")
	w.lenUvarint("tag_count", uint64(len(tags)))
	for _, t := range tags {
		w.lenUvarint("tag_id", t.id)
		w.lenUvarint("tag_size", uint64(len(t.data)))
		w.Raw(t.data)
	}
	w.pop()
	return nil
}

func asInt(v any) (int64, error) {
	switch x := v.(type) {
	case nil:
		return 0, nil
	case int64:
		return x, nil
	case int:
		return int64(x), nil
	case int32:
		return int64(x), nil
	case int16:
		return int64(x), nil
	case int8:
		return int64(x), nil
	case float64: // JSON replay
		return int64(x), nil
	}
	return 0, fmt.Errorf("not an integer: %T", v)
}

func encodeValue(w *Writer, t *Type, ver int16, flexible, nullable bool, v any, opt *EncOpts) error {
	switch t.Kind {
	case KBool:
		b, _ := v.(bool)
		w.Bool(b)
	case KInt8:
		n, err := asInt(v)
		if err != nil {
			return err
		}
		w.Int8(int8(n))
	case KInt16:
		n, err := asInt(v)
		if err != nil {
			return err
		}
		w.Int16(int16(n))
	case KInt32:
		n, err := asInt(v)
		if err != nil {
			return err
		}
		w.Int32(int32(n))
	case KInt64:
		n, err := asInt(v)
		if err != nil {
			return err
		}
		w.Int64(n)
	case KFloat64:
		f, _ := v.(float64)
		w.Float64(f)
	case KString:
		var sp *string
		if v != nil {
			s, ok := v.(string)
			if !ok {
				return fmt.Errorf("not a string: %T", v)
			}
			sp = &s
		} else if !nullable {
			e := "" // a missing value is the default
			sp = &e
		}
		if flexible {
			w.CompactString(sp)
		} else {
			w.String(sp)
		}
	case KBytes:
		var b []byte
		isNull := v == nil
		if !isNull {
			b = v.([]byte)
		} else if !nullable {
			isNull = false // a missing value is the default (empty)
		}
		if flexible {
			w.CompactBytes(b, isNull)
		} else {
			w.Bytes(b, isNull)
		}
	case KArray:
		if v == nil {
			if !nullable {
				// a missing value is the default (empty)
				if flexible {
					w.lenUvarint("compact_array", 1)
				} else {
					w.lenFixed32("array", 0)
				}
				return nil
			}
			if flexible {
				w.lenUvarint("compact_array", 0)
			} else {
				w.lenFixed32("array", -1)
			}
			return nil
		}
		a := v.([]any)
		if flexible {
			w.lenUvarint("compact_array", uint64(len(a))+1)
		} else {
			w.lenFixed32("array", len(a))
		}
		for i, e := range a {
			w.push(fmt.Sprintf("[%d]", i))
			// element nullability: only strings inside nullable arrays are never null in the spec
			err := encodeValue(w, t.Elem, ver, flexible, false, e, opt)
			w.pop()
			if err != nil {
				return fmt.Errorf("[%d]: %w", i, err)
			}
		}
	case KStruct:
		m, _ := v.(map[string]any)
		return EncodeFields(w, t.Fields, ver, flexible, m, opt)
	case KRecords:
		if v == nil {
			w.lenFixed32("records_size", -1)
			return nil
		}
		rs := v.(*RecordSet)
		off := len(w.B)
		w.Int32(0)
		start := len(w.B)
		if err := rs.encode(w); err != nil {
			return err
		}
		n := len(w.B) - start
		w.B[off], w.B[off+1], w.B[off+2], w.B[off+3] = byte(n>>24), byte(n>>16), byte(n>>8), byte(n)
		w.mark("records_size", off, 4, false, false, int64(n))
	default:
		return fmt.Errorf("cannot encode kind %v", t.Kind)
	}
	return nil
}

// DecOpts tunes the reference decoder.
type DecOpts struct {
	// Unknown counts tagged fields not in the schema.
	Unknown int
	// Lenient accepts any record-set bytes without validating them (kept raw).
	RawRecords bool
}

// DecodeFields reads one struct level.
func DecodeFields(r *Reader, fs []Field, ver int16, flexible bool, opt *DecOpts) map[string]any {
	out := map[string]any{}
	decodePlain(r, fs, ver, flexible, opt, out)
	if flexible && r.Err == nil {
		decodeTags(r, fs, ver, opt, out)
	}
	return out
}

func decodePlain(r *Reader, fs []Field, ver int16, flexible bool, opt *DecOpts, out map[string]any) {
	for i := range fs {
		f := &fs[i]
		if !f.In(ver) || f.TaggedIn(ver) || r.Err != nil {
			continue
		}
		if f.T.Kind == KInline {
			sub := map[string]any{}
			decodePlain(r, f.T.Fields, ver, flexible, opt, sub)
			out[f.N] = sub
			continue
		}
		out[f.N] = decodeValue(r, f.T, ver, flexible, f.NullIn(ver), opt)
		if r.Err != nil {
			r.Err = fmt.Errorf("%s: %w", f.N, r.Err)
		}
	}
}

func decodeTags(r *Reader, fs []Field, ver int16, opt *DecOpts, out map[string]any) {
	n := r.Uvarint()
	if r.Err != nil {
		return
	}
	if n > uint64(r.Remaining()) {
		r.fail(fmt.Errorf("refcodec: tag count %d exceeds remaining %d bytes", n, r.Remaining()))
		return
	}
	prev := int64(-1)
	for i := uint64(0); i < n && r.Err == nil; i++ {
		id := r.Uvarint()
		size := r.Uvarint()
		if r.Err != nil {
			return
		}
		if int64(id) <= prev {
			r.fail(fmt.Errorf("refcodec: tagged fields not in strictly ascending order (%d after %d)", id, prev))
			return
		}
		prev = int64(id)
		if size > uint64(r.Remaining()) {
			r.fail(fmt.Errorf("%w: tagged field %d of %d bytes", ErrShort, id, size))
			return
		}
		data := r.take(int(size))
		var known *Field
		for k := range fs {
			if fs[k].In(ver) && fs[k].TaggedIn(ver) && uint64(fs[k].Tag) == id {
				known = &fs[k]
			}
		}
		if known == nil {
			if opt != nil {
				opt.Unknown++
			}
			continue
		}
		sub := &Reader{B: data}
		out[known.N] = decodeValue(sub, known.T, ver, true, known.NullIn(ver), opt)
		if sub.Err == nil && sub.Remaining() != 0 {
			sub.Err = fmt.Errorf("refcodec: tagged field %d has %d trailing bytes", id, sub.Remaining())
		}
		if sub.Err != nil {
			r.fail(fmt.Errorf("tag %d (%s): %w", id, known.N, sub.Err))
		}
	}
}

func decodeValue(r *Reader, t *Type, ver int16, flexible, nullable bool, opt *DecOpts) any {
	switch t.Kind {
	case KBool:
		return r.Bool()
	case KInt8:
		return int64(r.Int8())
	case KInt16:
		return int64(r.Int16())
	case KInt32:
		return int64(r.Int32())
	case KInt64:
		return r.Int64()
	case KFloat64:
		return r.Float64()
	case KString:
		var s *string
		if flexible {
			s = r.CompactString(nullable)
		} else {
			s = r.String(nullable)
		}
		if s == nil {
			return nil
		}
		return *s
	case KBytes:
		var b []byte
		var isNull bool
		if flexible {
			b, isNull = r.CompactBytes(nullable)
		} else {
			b, isNull = r.Bytes(nullable)
		}
		if isNull || r.Err != nil {
			return nil
		}
		if b == nil {
			b = []byte{}
		}
		return b
	case KArray:
		var n int64
		at := r.Off
		if flexible {
			u := r.Uvarint()
			if u == 0 {
				if !nullable {
					r.fail(fmt.Errorf("refcodec: null compact array at offset %d in a non-nullable field", at))
				}
				return nil
			}
			n = int64(u - 1)
		} else {
			n = int64(r.Int32())
			if n < 0 {
				if n != -1 || !nullable {
					r.fail(fmt.Errorf("refcodec: array length %d at offset %d (nullable=%v)", n, at, nullable))
				}
				return nil
			}
		}
		if r.Err != nil {
			return nil
		}
		if n > int64(r.Remaining()) {
			r.fail(fmt.Errorf("%w: array of %d elements at offset %d with %d bytes left", ErrShort, n, at, r.Remaining()))
			return nil
		}
		a := make([]any, 0, n)
		for i := int64(0); i < n && r.Err == nil; i++ {
			a = append(a, decodeValue(r, t.Elem, ver, flexible, false, opt))
		}
		return a
	case KStruct:
		return DecodeFields(r, t.Fields, ver, flexible, opt)
	case KRecords:
		n := r.Int32()
		if n < 0 {
			if n != -1 {
				r.fail(fmt.Errorf("refcodec: record set size %d", n))
			}
			return nil
		}
		b := r.take(int(n))
		if b == nil {
			return nil
		}
		if opt != nil && opt.RawRecords {
			return &RecordSet{Raw: append([]byte{}, b...)}
		}
		rs, err := DecodeRecordSet(b)
		if err != nil {
			r.fail(fmt.Errorf("record set: %w", err))
			return nil
		}
		return rs
	}
	r.fail(fmt.Errorf("cannot decode kind %v", t.Kind))
	return nil
}

// ---------------------------------------------------------------------------
// Frames

// RequestHeader is the decoded request header.
type RequestHeader struct {
	Size          int32
	ApiKey        int16
	ApiVersion    int16
	CorrelationID int32
	ClientID      *string
}

// EncodeRequest returns a complete request frame (size prefix included).
func EncodeRequest(a *API, ver int16, corr int32, clientID *string, body map[string]any, opt *EncOpts) ([]byte, []LenField, error) {
	w := &Writer{Track: true}
	w.mark("frame_size", 0, 4, false, false, 0)
	w.Int32(0)
	w.Int16(a.Key)
	w.Int16(ver)
	w.Int32(corr)
	w.push("header.client_id")
	w.String(clientID)
	w.pop()
	flex := a.ReqFlexible(ver)
	if flex {
		w.push("header")
		w.lenUvarint("tag_count", 0)
		w.pop()
	}
	if err := EncodeFields(w, a.Req, ver, flex, body, opt); err != nil {
		return nil, nil, err
	}
	n := len(w.B) - 4
	w.B[0], w.B[1], w.B[2], w.B[3] = byte(n>>24), byte(n>>16), byte(n>>8), byte(n)
	w.Fields[0].Value = int64(n)
	return w.B, w.Fields, nil
}

// DecodeRequest strictly decodes one request frame from b (which must hold
// exactly one frame) with the schema of the api key/version found in its header.
func DecodeRequest(b []byte) (RequestHeader, *API, map[string]any, error) {
	r := &Reader{B: b}
	var h RequestHeader
	h.Size = r.Int32()
	if r.Err != nil {
		return h, nil, nil, r.Err
	}
	if int(h.Size) != len(b)-4 {
		return h, nil, nil, fmt.Errorf("frame size prefix %d but %d bytes follow", h.Size, len(b)-4)
	}
	h.ApiKey = r.Int16()
	h.ApiVersion = r.Int16()
	h.CorrelationID = r.Int32()
	h.ClientID = r.String(true)
	if r.Err != nil {
		return h, nil, nil, fmt.Errorf("request header: %w", r.Err)
	}
	a := Lookup(h.ApiKey)
	if a == nil {
		return h, nil, nil, fmt.Errorf("unknown api key %d", h.ApiKey)
	}
	if h.ApiVersion < a.Min || h.ApiVersion > a.Max {
		return h, a, nil, fmt.Errorf("%s version %d outside pinned range %d-%d", a.Name, h.ApiVersion, a.Min, a.Max)
	}
	flex := a.ReqFlexible(h.ApiVersion)
	if flex {
		if n := r.Uvarint(); n != 0 || r.Err != nil {
			return h, a, nil, fmt.Errorf("request header tag buffer: count %d err %v", n, r.Err)
		}
	}
	opt := &DecOpts{}
	body := DecodeFields(r, a.Req, h.ApiVersion, flex, opt)
	if r.Err != nil {
		return h, a, body, fmt.Errorf("%s v%d request body: %w", a.Name, h.ApiVersion, r.Err)
	}
	if r.Remaining() != 0 {
		return h, a, body, fmt.Errorf("%s v%d request body: %d trailing bytes after the last field", a.Name, h.ApiVersion, r.Remaining())
	}
	if opt.Unknown != 0 {
		return h, a, body, fmt.Errorf("%s v%d request body: %d unknown tagged fields", a.Name, h.ApiVersion, opt.Unknown)
	}
	return h, a, body, nil
}

// EncodeResponse returns a complete response frame.
func EncodeResponse(a *API, ver int16, corr int32, body map[string]any, opt *EncOpts) ([]byte, []LenField, error) {
	w := &Writer{Track: true}
	w.mark("frame_size", 0, 4, false, false, 0)
	w.Int32(0)
	w.Int32(corr)
	if a.RespHeaderFlexible(ver) {
		w.push("header")
		var tags []RawTag
		if opt != nil && opt.UnknownTags != nil {
			tags = opt.UnknownTags("header")
		}
		w.lenUvarint("tag_count", uint64(len(tags)))
		for _, t := range tags {
			w.lenUvarint("tag_id", t.ID)
			w.lenUvarint("tag_size", uint64(len(t.Data)))
			w.Raw(t.Data)
		}
		w.pop()
	}
	if err := EncodeFields(w, a.Resp, ver, a.RespFlexible(ver), body, opt); err != nil {
		return nil, nil, err
	}
	n := len(w.B) - 4
	w.B[0], w.B[1], w.B[2], w.B[3] = byte(n>>24), byte(n>>16), byte(n>>8), byte(n)
	w.Fields[0].Value = int64(n)
	return w.B, w.Fields, nil
}

// DecodeResponse strictly decodes one response frame.
func DecodeResponse(a *API, ver int16, b []byte) (corr int32, body map[string]any, err error) {
	r := &Reader{B: b}
	size := r.Int32()
	if r.Err != nil {
		return 0, nil, r.Err
	}
	if int(size) != len(b)-4 {
		return 0, nil, fmt.Errorf("frame size prefix %d but %d bytes follow", size, len(b)-4)
	}
	corr = r.Int32()
	if a.RespHeaderFlexible(ver) {
		n := r.Uvarint()
		for i := uint64(0); i < n && r.Err == nil; i++ {
			r.Uvarint()
			sz := r.Uvarint()
			r.take(int(sz))
		}
	}
	body = DecodeFields(r, a.Resp, ver, a.RespFlexible(ver), &DecOpts{})
	if r.Err != nil {
		return corr, body, r.Err
	}
	if r.Remaining() != 0 {
		return corr, body, fmt.Errorf("%d trailing bytes", r.Remaining())
	}
	return corr, body, nil
}
