package refcodec

import (
	"math"
	"time"

	"pgregory.net/rapid"
)

// GenMode selects the direction-specific value domain.
type GenMode int

const (
	// ForLibEncode: values the library's Go structs can express exactly
	// (nullable strings are null or non-empty, never "").
	ForLibEncode GenMode = iota
	// ForLibDecode: anything the specification allows (null, empty, ...).
	ForLibDecode
)

var (
	genInt8  = rapid.OneOf(rapid.SampledFrom([]int64{0, 1, -1, math.MinInt8, math.MaxInt8}), rapid.Int64Range(math.MinInt8, math.MaxInt8))
	genInt16 = rapid.OneOf(rapid.SampledFrom([]int64{0, 1, -1, math.MinInt16, math.MaxInt16, 255, 256}), rapid.Int64Range(math.MinInt16, math.MaxInt16))
	genInt32 = rapid.OneOf(rapid.SampledFrom([]int64{0, 1, -1, math.MinInt32, math.MaxInt32, 65535, 65536}), rapid.Int64Range(math.MinInt32, math.MaxInt32))
	genInt64 = rapid.OneOf(rapid.SampledFrom([]int64{0, 1, -1, math.MinInt64, math.MaxInt64, 1 << 32, -(1 << 32)}), rapid.Int64())
	genFloat = rapid.OneOf(rapid.SampledFrom([]float64{0, 1, -1, 0.5, math.MaxFloat64, math.SmallestNonzeroFloat64, math.Inf(1)}), rapid.Float64())
	// non-empty strings, mostly short; occasionally long (> 127: 2-byte compact length) and non-ASCII
	genStrNE = rapid.OneOf(
		rapid.StringMatching(`[a-zA-Z0-9._\-]{1,12}`),
		rapid.StringMatching(`[a-zA-Z0-9._\-]{1,12}`),
		rapid.StringMatching(`[a-z]{120,140}`),
		rapid.StringMatching(`[a-zé☃]{1,6}`),
		// lengths around powers of two (fast paths and short-string optimisations have their edges there)
		rapid.Custom(func(t *rapid.T) string {
			n := rapid.SampledFrom([]int{7, 8, 9, 15, 16, 17, 30, 31, 32, 33, 63, 64, 65, 126, 127, 128, 129, 255, 256, 257}).Draw(t, "strEdgeLen")
			b := make([]byte, n)
			for i := range b {
				b[i] = 'a' + byte((i*7+n)%26)
			}
			return string(b)
		}),
	)
)

func genBytes(t *rapid.T) []byte {
	if rapid.IntRange(0, 59).Draw(t, "bytesHuge") == 0 {
		// around the 64 KiB chunks in which the library's decoder reads long blobs (and the 64 KiB pages of its buffers)
		n := rapid.SampledFrom([]int{65535, 65536, 65537, 70000, 131071, 131072, 131073, 200000}).Draw(t, "bytesHugeLen")
		seed := rapid.Byte().Draw(t, "bytesHugeSeed")
		b := make([]byte, n)
		for i := range b {
			b[i] = seed + byte(i*7) + byte(i>>8)
		}
		return b
	}
	switch rapid.IntRange(0, 5).Draw(t, "bytesKind") {
	case 0:
		return []byte{}
	case 1:
		return rapid.SliceOfN(rapid.Byte(), 120, 300).Draw(t, "bytesLong")
	default:
		return rapid.SliceOfN(rapid.Byte(), 1, 16).Draw(t, "bytes")
	}
}

// GenBody draws a value tree for the fields present at ver.
func GenBody(t *rapid.T, fs []Field, ver int16, mode GenMode, depth int, recs func(t *rapid.T, path string) *RecordSet) map[string]any {
	out := map[string]any{}
	for i := range fs {
		f := &fs[i]
		if !f.In(ver) {
			continue
		}
		out[f.N] = genValue(t, f.N, f.T, ver, f.NullIn(ver), mode, depth, false, recs)
	}
	return out
}

func genValue(t *rapid.T, name string, ty *Type, ver int16, nullable bool, mode GenMode, depth int, inArray bool, recs func(t *rapid.T, path string) *RecordSet) any {
	switch ty.Kind {
	case KBool:
		return rapid.Bool().Draw(t, name)
	case KInt8:
		return genInt8.Draw(t, name)
	case KInt16:
		return genInt16.Draw(t, name)
	case KInt32:
		return genInt32.Draw(t, name)
	case KInt64:
		return genInt64.Draw(t, name)
	case KFloat64:
		return genFloat.Draw(t, name)
	case KString:
		k := rapid.IntRange(0, 5).Draw(t, name+"?")
		if nullable && k == 0 {
			return nil
		}
		if k == 1 && !inArray {
			if nullable && mode == ForLibEncode {
				return nil // the library writes "" in a nullable field as null
			}
			return ""
		}
		return genStrNE.Draw(t, name)
	case KBytes:
		if nullable && rapid.IntRange(0, 4).Draw(t, name+"?") == 0 {
			return nil
		}
		return genBytes(t)
	case KArray:
		k := rapid.IntRange(0, 6).Draw(t, name+"#")
		if nullable && k == 0 {
			return nil
		}
		n := 0
		switch {
		case k == 1:
			n = 0
		case k == 2 && depth == 0 && ty.Elem.Kind != KStruct:
			// > 127 elements: 2-byte compact count; > 512: beyond the decoder's preallocation
			n = rapid.OneOf(rapid.IntRange(100, 200), rapid.IntRange(500, 1100)).Draw(t, name+"#big")
		case depth >= 2:
			n = rapid.IntRange(0, 2).Draw(t, name+"#n")
		default:
			n = rapid.IntRange(1, 3).Draw(t, name+"#n")
		}
		a := make([]any, n)
		for i := range a {
			a[i] = genValue(t, name, ty.Elem, ver, false, mode, depth+1, true, recs)
		}
		return a
	case KStruct, KInline:
		return GenBody(t, ty.Fields, ver, mode, depth, recs)
	case KRecords:
		if recs == nil {
			return nil
		}
		rs := recs(t, name)
		if rs == nil {
			return nil
		}
		return rs
	}
	return nil
}

// GenUnknownTags returns an UnknownTags callback that draws 0-2 unknown tagged
// fields (ids above knownMax) for every struct level.
func GenUnknownTags(t *rapid.T) func(path string) []RawTag {
	return func(path string) []RawTag {
		n := rapid.IntRange(0, 3).Draw(t, "unknownTags@"+path)
		if n == 3 {
			n = 0
		}
		var out []RawTag
		id := uint64(rapid.IntRange(20, 200).Draw(t, "tagBase"))
		for i := 0; i < n; i++ {
			out = append(out, RawTag{ID: id, Data: rapid.SliceOfN(rapid.Byte(), 0, 9).Draw(t, "tagData")})
			id += uint64(rapid.IntRange(1, 300).Draw(t, "tagStep"))
		}
		return out
	}
}

// RecordGenOpts bounds GenRecordSet.
type RecordGenOpts struct {
	Magics      []int8 // allowed formats
	MaxBatches  int
	MaxRecords  int
	BigValues   bool // allow values spanning 64 KiB pages
	Codecs      []int8
	StartOffset int64
}

// GenRecords draws a list of logical records with increasing offsets starting
// at base, optional holes.
func GenRecords(t *rapid.T, n int, base int64, magic int8, holes bool, big bool) []Record {
	out := make([]Record, 0, n)
	off := base
	ts0 := rapid.Int64Range(1, 1<<41).Draw(t, "ts0")
	if magic >= 1 && rapid.IntRange(0, 11).Draw(t, "farFuture") == 0 {
		// timestamps are 64-bit milliseconds: years beyond 2262 do not fit a 64-bit nanosecond count
		ts0 = rapid.Int64Range(9223372036855, 253402300799000).Draw(t, "tsFar")
	}
	for i := 0; i < n; i++ {
		if holes && i > 0 && rapid.IntRange(0, 3).Draw(t, "hole") == 0 {
			off += int64(rapid.IntRange(1, 3).Draw(t, "holeLen"))
		}
		r := Record{Offset: off}
		if magic >= 1 {
			r.Timestamp = ts0 + rapid.Int64Range(-1000, 100000).Draw(t, "tsDelta")
			if r.Timestamp < 1 {
				r.Timestamp = 1
			}
		}
		switch rapid.IntRange(0, 5).Draw(t, "keyKind") {
		case 0:
			r.KeyNull = true
		case 1:
			r.Key = []byte{}
		default:
			r.Key = rapid.SliceOfN(rapid.Byte(), 1, 12).Draw(t, "key")
		}
		switch k := rapid.IntRange(0, 9).Draw(t, "valKind"); {
		case k == 0:
			r.ValueNull = true
		case k == 1:
			r.Value = []byte{}
		case k == 2 && big:
			n := rapid.SampledFrom([]int{65535, 65536, 65537, 70000, 131073, 200000}).Draw(t, "bigLen")
			b := make([]byte, n)
			seed := byte(rapid.IntRange(0, 255).Draw(t, "bigSeed"))
			for j := range b {
				b[j] = seed + byte(j*7) + byte(j>>8)
			}
			r.Value = b
		default:
			r.Value = rapid.SliceOfN(rapid.Byte(), 1, 40).Draw(t, "value")
		}
		if magic == 2 {
			nh := rapid.SampledFrom([]int{0, 0, 0, 1, 2, 3}).Draw(t, "nHeaders")
			for h := 0; h < nh; h++ {
				hd := Header{Key: rapid.StringMatching(`[a-z]{0,6}`).Draw(t, "hKey")}
				switch rapid.IntRange(0, 3).Draw(t, "hValKind") {
				case 0:
					hd.ValueNull = true
				case 1:
					hd.Value = []byte{}
				default:
					hd.Value = rapid.SliceOfN(rapid.Byte(), 1, 10).Draw(t, "hVal")
					if big && rapid.IntRange(0, 9).Draw(t, "bigHeader") == 0 {
						// header values are byte sequences like keys and values: longer than one 64 KiB read unit, too
						n := rapid.SampledFrom([]int{65535, 65537, 70000, 100000, 140000}).Draw(t, "bigHeaderLen")
						b := make([]byte, n)
						for j := range b {
							b[j] = hd.Value[0] + byte(j*5) + byte(j>>9)
						}
						hd.Value = b
					}
				}
				r.Headers = append(r.Headers, hd)
			}
		}
		out = append(out, r)
		off++
	}
	return out
}

// MakeBatchV2 wraps records into a well-formed format-2 batch.
func MakeBatchV2(recs []Record, codec int8) Batch {
	b := Batch{Magic: 2, Codec: codec, ProducerID: -1, ProducerEpoch: -1, BaseSequence: -1, Records: recs, SnappyXerial: true}
	if len(recs) > 0 {
		b.BaseOffset = recs[0].Offset
		b.LastOffsetDelta = int32(recs[len(recs)-1].Offset - recs[0].Offset)
		b.FirstTimestamp = recs[0].Timestamp
		for _, r := range recs {
			if r.Timestamp > b.MaxTimestamp {
				b.MaxTimestamp = r.Timestamp
			}
		}
	}
	return b
}

// MillisOf is the timestamp a time.Time stands for, in milliseconds since the epoch (also beyond the year 2262, where
// UnixNano overflows).
func MillisOf(t time.Time) int64 {
	if t.IsZero() {
		return t.UnixNano() / int64(time.Millisecond)
	}
	return t.UnixMilli()
}
